"""C15 All forms of an operator give the same answer; clones are equal and independent."""
import json
import os
import re
import framework as fw

INV_RE = re.compile(r'\("([^"]+)" :> \{([^}]*)\}\)')


def load_inventory():
    txt = open(os.path.join(fw.SPEC, "C15", "Inventory.tla")).read()
    return {m.group(1): set(re.findall(r'"([^"]+)"', m.group(2))) for m in INV_RE.finditer(txt)}


SEEN = {}


def key(e):
    fam = e.get("fam", e.get("prop"))
    return "%s:%s%s" % (fam, e["op"], (":" + e["lt"] + e["rt"]) if "lt" in e else "")


def cover(e):
    fam = e.get("fam", e.get("prop"))
    cs = ["fam:" + fam]
    if fam == "cloneg":
        cs.append("cloneg:%s:%s" % (e["ty"], e["op"]))
    if fam == "clone":
        cs.append("clone:" + e["op"])
        if any(len(r["m"]) > 16 for r in e["regs"]) and any(len(r["m"]) <= 16 for r in e["regs"]):
            cs.append("clone:inline-and-heap")
        if e["op"] == "clone_from" and e["dst"] != e["src"]:
            d, s = e["regs"][e["dst"] - 1], e["regs"][e["src"] - 1]
            cs.append("clone_from:" + ("to-heap" if len(s["m"]) > 16 else "to-inline"))
        return cs
    if "outs" not in e:
        return cs
    SEEN.setdefault(key(e), set()).update(f for g in e["outs"] for f in g["forms"])
    if any(g["out"]["k"] == "panic" for g in e["outs"]):
        cs.append("all-forms-panic" if len(e["outs"]) == 1 else "some-forms-panic")
    return cs


def run(ctx):
    bins = {b: fw.build("std64", b) for b in ("c01", "c02", "c09", "c15")}
    mon = dict(cover=cover, timeout=3000)
    if ctx.replay:
        v = json.load(open(ctx.replay))
        case = v["case"]
        p = ctx.path("replay-case.ndjson")
        open(p, "w").write(json.dumps(case) + "\n")
        prop = case.get("prop", "C15")
        if prop in ("C01", "C02", "C09"):
            tr = ctx.drive(bins[prop.lower()], ["--cases", p, "--n", "0"], "trace-replay.ndjson")
        else:
            # float / ratio / modular / clone events are reproduced by re-running the seeded driver
            what = ["clone"] if case.get("fam") in ("clone", "cloneg") else []
            tr = ctx.drive(bins["c15"], what + ["--seed", str(v["seed"]), "--n", str(ctx.pick(1500, 12000))], "trace-replay.ndjson")
        ctx.monitor("replay", "C15", "Trace_C15.tla", "Trace_C15.cfg", tr)
        return ctx.finish()
    s = str(ctx.seed)
    q = ctx.quick
    runs = [
        ("c01", ["--seed", s, "--n", str(600 if q else 5000), "--max-words", "5"]),
        ("c02", ["--seed", s, "--n", str(500 if q else 4000), "--max-words", "5"]),
        ("c09", ["--seed", s, "--n", str(800 if q else 6000), "--max-words", "5"]),
        ("c15", ["--seed", s, "--n", str(2000 if q else 16000)]),
        ("c15", ["clone", "--seed", s, "--n", str(1500 if q else 12000)]),
    ]
    # witnesses of the division-form finding are always part of the run
    wit = ctx.path("witness-cases.ndjson")
    with open(wit, "w") as f:
        for k in ctx.known:
            if k["id"] == "F11/C02":
                for wk in ("witness", "witness2"):
                    f.write(json.dumps(k[wk]) + "\n")
    runs[1] = ("c02", runs[1][1] + ["--cases", wit])
    for i, (b, argv) in enumerate(runs):
        name = "%s%s" % (b, "-clone" if "clone" in argv else "")
        tr = ctx.drive(bins[b], argv, "trace-%s.ndjson" % name)
        ctx.monitor("mon-" + name, "C15", "Trace_C15.tla", "Trace_C15.cfg", tr, **mon)
    inv = load_inventory()
    total = sum(len(v) for v in inv.values())
    seen = sum(len(inv[k] & SEEN.get(k, set())) for k in inv)
    ctx.scope.update({"inventory_keys": len(inv), "inventory_forms": total, "forms_exercised": seen})
    if seen < 0.9 * total:
        raise fw.ToolError("vacuity: only %d of %d inventory forms exercised" % (seen, total))
    return ctx.finish(
        rule="one event = one operation on one operand tuple executed in every call form of the inventory (spec/C15/Inventory.tla), "
             "or one step of the clone machine with all registers logged; distinct by content",
        explanation="Trace_C15 checks agreement of all forms (division: on every shared part), membership of every form in the "
                    "inventory, and the clone register machine (only the destination changes, clones equal their source).",
        extra={"forms_exercised": seen, "inventory_forms": total},
        required_cover=["fam:C01", "fam:C02", "fam:C09", "fam:float", "fam:rbig", "fam:relaxed", "fam:mod", "fam:clone",
                        "clone:clone", "clone:clone_from", "clone:sqr_self", "clone:sub_self", "clone:inline-and-heap",
                        "clone_from:to-heap", "clone_from:to-inline", "all-forms-panic",
                        "cloneg:RBig:clone_from", "cloneg:Relaxed:clone_from", "cloneg:FBig:clone_from", "cloneg:DBig:clone_from",
                        "cloneg:RBig:clone", "cloneg:FBig:mut"])


def selftest(ctx):
    b = fw.build("std64", "c15")
    tr = ctx.drive(b, ["clone", "--seed", "5", "--n", "60"], "trace.ndjson")
    lines = open(tr).read().split("\n")
    e = json.loads(lines[40])
    other = e["dst"] % 4        # a register that is not the destination (0-based index of dst+1)
    e["regs"][other]["m"] = e["regs"][other]["m"] + [1]
    lines[40] = json.dumps(e)
    open(tr, "w").write("\n".join(lines))
    v = ctx.monitor("selftest", "C15", "Trace_C15.tla", "Trace_C15.cfg", tr)
    got = [(x["i"], x["why"]) for x in v["bad"]]
    ok = len(got) >= 1 and got[0] == (41, "clone-not-independent")
    print("SELFTEST %s: aliased register in event 41 -> monitor flagged %s" % ("PASS" if ok else "FAIL", got[:3]))
    return 0 if ok else 2
