"""C04 Rational arithmetic is exact and RBig stays in lowest terms."""
import json
import os
import shutil
import re
import framework as fw

SPECDIR = "C04"
LIBS = ("C01",)          # IntPatterns (operand bit patterns)
WITNESS_F20 = {"op": "inv", "kind": "q", "grp": "witness",
               "a": {"num": {"s": 0, "m": []}, "den": {"s": 0, "m": [1]}},
               "b": {"num": {"s": 0, "m": []}, "den": {"s": 0, "m": [1]}}, "k": {"s": 0, "m": []}, "n": 0}


def repo_root():
    return os.environ.get("VERIF_REPO") or "/repo"


def f20_fixed_in_source():
    """the algorithm-layer model follows the code: does `Inverse for Repr` test for zero?"""
    src = open(os.path.join(repo_root(), "rational", "src", "div.rs")).read()
    m = re.search(r"impl Inverse for Repr \{.*?fn inv\(self\) -> Repr \{(.*?)\n    \}", src, re.S)
    if not m:
        raise fw.ToolError("cannot locate `impl Inverse for Repr` in rational/src/div.rs (model out of date)")
    return "panic_divide_by_0" in m.group(1)


def nbytes(x):
    return len(x.get("m", []))


def cover(e):
    cs = ["op:" + e["op"], "kind:" + e["kind"], "from:" + e.get("from", "?")]
    big = max(nbytes(e["a"]["num"]), nbytes(e["a"]["den"]), nbytes(e["b"]["num"]), nbytes(e["b"]["den"])) > 8
    if big:
        cs.append("multiword-operand")
    if e["kind"] == "load":
        return cs
    if e["kind"] == "qq" and e["src"][0] == e["src"][1]:
        cs.append("same-register-twice")
    for o in e["outs"]:
        cs.append("ty:" + o["ty"])
        if o["out"]["k"] == "panic":
            cs.append("panic")
            continue
        v = o["out"]["v"]
        if o["ty"] == "R":
            if not v["num"]["m"]:
                cs.append("zero-result")
            if v["den"]["m"] == [1]:
                cs.append("integer-result")
            if v["hint"]["s"]["m"] or v["hint"]["t"]["m"]:
                cs.append("bezout-hint")
            elif max(nbytes(v["num"]), nbytes(v["den"])) > 8:
                cs.append("euclid-on-multiword")
            if e["kind"] == "qq" and e["op"] in ("add", "sub"):
                g = _gcd(fw.intval(e["a"]["den"]), fw.intval(e["b"]["den"]))
                cs.append("addsub:" + ("coprime-denominators" if g == 1 else "shared-denominator-factor"))
                if g != 1 and fw.intval(v["den"]) * g != fw.intval(e["a"]["den"]) * fw.intval(e["b"]["den"]):
                    cs.append("addsub:hint-reduction-cancels-more")
            if e["kind"] == "qq" and e["op"] in ("mul", "div") and big:
                if nbytes(v["den"]) < nbytes(e["a"]["den"]) + nbytes(e["b"]["num" if e["op"] == "div" else "den"]) - 1:
                    cs.append("muldiv:cross-cancellation")
        elif o["ty"] == "X":
            if _gcd(fw.intval(v["num"]), fw.intval(v["den"])) != 1:
                cs.append("relaxed-unreduced")
    if len(e["outs"]) > 2:
        cs.append("forms-differ-in-representation")
    if e.get("from") == "rnd" and e["st"] == 1:
        cs.append("history-feedback")
    return cs


def _gcd(a, b):
    a, b = abs(a), abs(b)
    while b:
        a, b = b, a % b
    return a


def nontrivial(e):
    return e["kind"] != "load" and bool(e["a"]["num"]["m"])


def model_check(ctx):
    fixed = f20_fixed_in_source()
    ctx.scope["model_F20_repaired"] = fixed
    n_all = ctx.pick(8, 12)
    consts = {"N": n_all, "MaxDepth": 1, "Bound": 100000000, "SeedMode": '"all"', "PowMax": 4,
              "Scales": ctx.pick("{1, 2}", "{1, 2, 3}"), "FixF20": "TRUE" if fixed else "FALSE"}
    ctx.scope["mc_exhaustive"] = {"numerators": [-n_all, n_all], "denominators": [1, n_all], "pow": [0, 4]}
    cfg = fw.write_cfg(ctx.path("MC_RatioOps.cfg"), invariants=["ResultOK", "CanonInv"], constants=consts)
    ctx.mc("mc-ops", SPECDIR, "RatioOps.tla", cfg, timeout=2400)
    # histories: results fed back as operands, canonicity is inductive
    hist = dict(consts, N=ctx.pick(6, 8), MaxDepth=3, Bound=ctx.pick(40, 150), SeedMode='"few"', PowMax=3, Scales="{1, 2}")
    ctx.scope["mc_histories"] = {"depth": 3, "bound": hist["Bound"], "registers": 2}
    cfg = fw.write_cfg(ctx.path("MC_RatioHist.cfg"), invariants=["ResultOK", "CanonInv"], constants=hist)
    ctx.mc("mc-hist", SPECDIR, "RatioOps.tla", cfg, timeout=2400)
    # vacuity control of the model: every branch class must be reached (small scope, tags printed per state)
    cov = dict(consts, N=4, PowMax=2, Scales="{1, 2}")
    cfg = fw.write_cfg(ctx.path("MC_RatioCov.cfg"), invariants=["ResultOK", "CanonInv", "CovEmit"], constants=cov)
    r = ctx.mc("mc-cov", SPECDIR, "RatioOps.tla", cfg, timeout=900, workers=4)
    tags = set(t for t in r.tagged("COV") if isinstance(t, str))
    want = ["%s/qq/%s/%s" % (o, t, k) for o in ("mul", "div", "rem", "rem_euclid", "div_rem_euclid") for t in "RX"
            for k in ("frac", "int", "zero")]
    want += ["%s/qq/R/%s/%s" % (o, k, b) for o in ("add", "sub") for k in ("frac", "int", "zero") for b in ("coprime", "shared")
             if not (k == "zero" and b == "shared" and False)]
    want += ["%s/qq/X/%s" % (o, k) for o in ("add", "sub") for k in ("frac", "int", "zero")]
    want += ["%s/qq/%s/panic" % (o, t) for o in ("div", "rem", "div_euclid", "rem_euclid", "div_rem_euclid") for t in "RX"]
    want += ["%s/%s/%s/%s" % (o, f, t, k) for o in ("add", "sub", "mul", "div") for f in ("qi", "iq") for t in "RX"
             for k in ("frac", "int", "zero")]
    want += ["div/qi/R/panic", "div/iq/R/panic", "div/qi/X/panic", "div/iq/X/panic"]
    want += ["%s/q/%s/%s" % (o, t, k) for o in ("inv", "sqr", "cubic", "pow") for t in "RX" for k in ("frac", "int")]
    want += ["inv/q/R/panic", "inv/q/X/panic"] if fixed else []
    missing = [w for w in want if w not in tags]
    if missing:
        raise fw.ToolError("vacuity: branch classes never reached in RatioOps: %s" % missing[:12])
    ctx.scope["mc_branch_classes"] = len(tags)
    if not fixed:
        # re-finding run: without the Known_F20 disjunct TLC must exhibit the defect from the model alone
        small = dict(consts, N=2, Scales="{1}", PowMax=1)
        cfg = fw.write_cfg(ctx.path("MC_RatioF20.cfg"), invariants=["ResultStrict"], constants=small)
        r = ctx.mc("mc-f20", SPECDIR, "RatioOps.tla", cfg, expect_ok=False, timeout=600, workers=2)
        if "ResultStrict" not in r.invariant_violated:
            raise fw.ToolError("model of the unrepaired Inverse::inv does not exhibit F20 (model out of date)")
        ctx.notes.append("F20 exhibited by TLC on the algorithm-layer model (ResultStrict violated, as expected)")


def run(ctx):
    drive = fw.build("std64", "c04")
    if ctx.replay:
        case = json.load(open(ctx.replay))["case"]
        p = ctx.path("replay-case.ndjson")
        open(p, "w").write(json.dumps(case) + "\n")
        tr = ctx.drive(drive, ["--cases", p, "--n", "0"], "trace-replay.ndjson")
        ctx.monitor("replay", SPECDIR, "Trace_C04.tla", "Trace_C04.cfg", tr)
        return ctx.finish()
    model_check(ctx)
    # spec -> impl: every state of the small scope + multi-word operands with planted factors
    ng = ctx.pick(5, 8)
    classes = ctx.pick([1, 2, 4], [1, 2, 3, 4, 6, 9])
    kvar = ctx.pick(2, 4)
    ctx.scope.update({"gen_small_scope": ng, "gen_big_classes_words": classes, "gen_big_variants": kvar})
    cfg = fw.write_cfg(ctx.path("Gen_C04.cfg"), invariants=["Emit"],
                       constants={"NG": ng, "Classes": fw.tla_set(classes), "K": kvar, "Seed": ctx.seed % 1000})
    cases, ncases = ctx.gen("gen", SPECDIR, "Gen_C04.tla", cfg, libs=LIBS, timeout=1800)
    # the witness of every open finding is part of every run
    with open(cases, "a") as f:
        f.write(json.dumps(WITNESS_F20) + "\n")
    tr1 = ctx.drive(drive, ["--cases", cases, "--n", "0"], "trace-gen.ndjson")
    ctx.monitor("mon-gen", SPECDIR, "Trace_C04.tla", "Trace_C04.cfg", tr1, nontrivial=nontrivial, cover=cover, timeout=3000)
    # impl -> spec: seeded random histories over the register pool
    for j, (n, mw) in enumerate(ctx.pick([(1500, 2), (700, 6)], [(12000, 2), (6000, 6), (600, 10)])):
        tr = ctx.drive(drive, ["--seed", str(ctx.seed * 7 + j), "--n", str(n), "--max-words", str(mw)], "trace-rnd%d.ndjson" % j)
        ctx.monitor("mon-rnd%d" % j, SPECDIR, "Trace_C04.tla", "Trace_C04.cfg", tr, nontrivial=nontrivial, cover=cover,
                    timeout=3000)
    ops = ["add", "sub", "mul", "div", "rem", "div_euclid", "rem_euclid", "div_rem_euclid", "inv", "sqr", "cubic", "pow", "load"]
    rc = ctx.finish(
        rule="one event = one register transfer dst := op(src) executed in every call form on the RBig and the Relaxed "
             "register file; distinct = distinct (op, kind, operands, outcomes); non-trivial = not a load, non-zero first operand",
        explanation="RatioOps (the case analysis of rational/src/{add,mul,div,repr}.rs) is model-checked against RatioDef for all "
                    "operand pairs of the scope and along 3-step histories of a 2-register machine (canonicity inductive); "
                    "Gen_C04 replays every small-scope state plus multi-word operands with planted common factors; seeded "
                    "histories over an 8-register pool are validated by the pool-machine monitor Trace_C04 (exact value by "
                    "cross multiplication on BigInt, canonicity by Euclid on BigNat or a re-verified Bezout hint).",
        required_cover=["op:" + o for o in ops] + ["kind:qq", "kind:qu", "kind:qi", "kind:uq", "kind:iq", "kind:q",
                        "ty:R", "ty:X", "panic", "zero-result", "integer-result", "bezout-hint", "multiword-operand",
                        "addsub:coprime-denominators", "addsub:shared-denominator-factor",
                        "addsub:hint-reduction-cancels-more", "muldiv:cross-cancellation", "relaxed-unreduced",
                        "same-register-twice", "history-feedback", "from:small", "from:big", "from:rnd"])
    if rc == 0 and not os.environ.get("VERIF_REPO"):
        stale = fw.stale_findings_check(ctx, ["F20"])
        if stale:
            raise fw.ToolError("open finding(s) %s no longer observed although the witness ran: mark fixed" % stale)
    return rc


def selftest(ctx):
    """binding demonstration: corrupt one recorded result / one operand, the monitor must flag exactly that event"""
    drive = fw.build("std64", "c04")
    tr = ctx.drive(drive, ["--seed", "5", "--n", "250", "--max-words", "3"], "trace.ndjson")
    lines = open(tr).read().split("\n")
    ok = True
    # 1. a wrong numerator in one group of forms (value), 2. a common factor 3 planted in an RBig result (canonicity)
    idx = [i for i, l in enumerate(lines) if l and json.loads(l)["kind"] == "qq" and json.loads(l)["op"] in ("add", "mul")
           and all(o["out"]["k"] == "ok" and o["out"]["v"]["num"]["m"] for o in json.loads(l)["outs"])]
    if len(idx) < 4:
        raise fw.ToolError("selftest: not enough clean add/mul events in the sample trace")
    i1, i2 = idx[1], idx[-1]
    e = json.loads(lines[i1])
    g = [o for o in e["outs"] if o["ty"] == "X"][0]
    m = g["out"]["v"]["num"]["m"]
    if m:
        m[0] = (m[0] ^ 1) or 2
    else:
        m.append(1)
    lines[i1] = json.dumps(e)
    e = json.loads(lines[i2])
    g = [o for o in e["outs"] if o["ty"] == "R"][0]
    v = g["out"]["v"]
    for part in ("num", "den"):
        x = fw.intval(v[part]) * 3
        v[part] = {"s": 1 if x < 0 else 0, "m": list(abs(x).to_bytes((abs(x).bit_length() + 7) // 8, "little"))}
    v["hint"] = {"s": {"s": 0, "m": []}, "t": {"s": 0, "m": []}}
    lines[i2] = json.dumps(e)
    open(tr, "w").write("\n".join(lines))
    v = ctx.monitor("selftest", SPECDIR, "Trace_C04.tla", "Trace_C04.cfg", tr)
    got = sorted((b["i"], b["why"]) for b in v["bad"] if b["why"] not in ("no-panic-on-division-by-zero",))
    want = sorted([(i1 + 1, "wrong-value"), (i2 + 1, "rbig-not-canonical")])
    if got != want:
        ok = False
    print("SELFTEST %s: corrupted events %s -> monitor flagged %s" % ("PASS" if ok else "FAIL", want, got))
    if ok:
        shutil.rmtree(ctx.rundir, ignore_errors=True)
    return 0 if ok else 2
