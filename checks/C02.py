"""C02 Integer division obeys the division identity with documented conventions."""
import json
import framework as fw


TD = [32]        # schoolbook / divide-and-conquer switch, set from the source in run()


def cover(e):
    cs = ["types:%s%s" % (e["lt"], e["rt"]), "src:" + e["src"]]
    wa, wb = fw.nwords(e["a"]), fw.nwords(e["b"])
    a, b = fw.intval(e["a"]), fw.intval(e["b"])
    if b == 0:
        cs.append("zero-divisor")
        return cs
    cs.append("signs:%s%s" % ("-" if a < 0 else "+", "-" if b < 0 else "+"))
    cs.append("divisor:" + ("1w" if wb == 1 else "2w" if wb == 2 else "3-32w" if wb <= TD[0] else ">32w"))
    wq = max(wa - wb + 1, 0)
    if wb > TD[0] and wq > TD[0]:
        cs.append("divide-and-conquer")
    if wb == 2 and abs(b) & (abs(b) - 1) == 0:
        cs.append("dword-power-of-two")
    if a % b == 0:
        cs.append("exact")
    elif abs(a) < abs(b):
        cs.append("quotient-zero")
    nforms = sum(len(o["forms"]) for o in e["outs"])
    if nforms > 40:
        cs.append("primitive-forms")
    if any(f.startswith("E.") for o in e["outs"] for f in o["forms"]):
        cs.append("euclid")
    if e["rt"] == "C":
        cs.append("const-divisor")
    return cs


def nontrivial(e):
    return len(e["a"]["m"]) > 0 and len(e["b"]["m"]) > 0


def run(ctx):
    drive = fw.build("std64", "c02")
    mon = dict(nontrivial=nontrivial, cover=cover)
    if ctx.replay:
        case = json.load(open(ctx.replay))["case"]
        p = ctx.path("replay-case.ndjson")
        open(p, "w").write(json.dumps(case) + "\n")
        tr = ctx.drive(drive, ["--cases", p, "--n", "0"], "trace-replay.ndjson")
        ctx.monitor("replay", "C02", "Trace_C02.tla", "Trace_C02.cfg", tr)
        return ctx.finish()
    # algorithm layer: sign fix-up macros, exhaustive small scope
    maxv = ctx.pick(70, 160)
    cfg = fw.write_cfg(ctx.path("MC_IntDivAlg.cfg"), invariants=["TruncOK", "EuclidOK", "MixedOK", "ConstOK"],
                       constants={"MaxV": maxv})
    ctx.mc("mc-divalg", "C02", "IntDivAlg.tla", cfg, required_actions=["Pick"])
    ctx.scope.update({"IntDivAlg.MaxV": maxv})
    # algorithm layer, word level: single/double-word fast paths and the shift helpers, with the 2-by-1 precondition
    for (w, ml) in ctx.pick([(3, 4)], [(3, 5), (4, 3)]):
        cfg = fw.write_cfg(ctx.path("MC_DivWordAlg_%d_%d.cfg" % (w, ml)), invariants=["DivWordOK", "RemWordOK", "DivDwordPow2OK"],
                           constants={"W": w, "MaxLen": ml})
        ctx.mc("mc-divword-w%d-n%d" % (w, ml), "C02", "DivWordAlg.tla", cfg, required_actions=["Pick", "PickD"])
    # algorithm layer, multi-word divisors: Knuth D with the 3-by-2 estimate and its single correction, the divide-and-conquer
    # recursion (blocks, 3n/2n steps, 2m/m estimate with at most two corrections), threshold scaled down to its minimum 3
    for nm, seeds, nl, ql in ctx.pick([("a", "{1, 2}", "{2, 3, 4, 5, 6, 7, 8}", "{0, 1, 2, 3, 4, 5, 6, 7}")],
                                      [("a", "{1, 2, 3, 4, 5, 6}", "{2, 3, 4, 5, 6, 7, 8}", "{0, 1, 2, 3, 4, 5, 6, 7}")]):
        cfg = fw.write_cfg(ctx.path("MC_DivLargeAlg_%s.cfg" % nm), invariants=["DivOK"],
                           constants={"W": 2, "TD": 3, "NLens": nl, "QLens": ql, "Seeds": seeds})
        ctx.mc("mc-divlarge-" + nm, "C02", "DivLargeAlg.tla", cfg)
    ctx.scope.update({"DivLargeAlg": "W=2, THRESHOLD_SIMPLE=3, divisors of 2..8 words (27 normalised shapes per seed), quotients of 0..7 words, block-pattern dividends"})
    # spec -> impl
    # the size classes follow the schoolbook / divide-and-conquer switch of the code (read from the source)
    sc = fw.source_constants()
    td = sc["DIV_THRESHOLD_SIMPLE"]
    TD[0] = td
    divc = sorted(set(ctx.pick([0, 1, 2, 3, td, td + 1, td + 2], [0, 1, 2, 3, 4, 16, td - 1, td, td + 1, td + 2, td + 8, 2 * td + 6])))
    quoc = sorted(set(ctx.pick([0, 1, 2, td, td + 1, td + 2], [0, 1, 2, 3, 16, td - 1, td, td + 1, td + 2, td + 8, 2 * td + 6])))
    ctx.scope.update({"source_constants": sc})
    k = ctx.pick(7, 14)
    ctx.scope.update({"divisor_classes_words": divc, "quotient_classes_words": quoc, "variants": k})
    cfg = fw.write_cfg(ctx.path("Gen_C02.cfg"), invariants=["Emit"],
                       constants={"DivClasses": fw.tla_set(divc), "QuoClasses": fw.tla_set(quoc), "K": k, "Seed": ctx.seed % 1000})
    cases, _ = ctx.gen("gen", "C02", "Gen_C02.tla", cfg, libs=("C01",))
    ctx.append_witnesses(cases, select=lambda k: k["witness"].get("op") == "divmod")
    tr1 = ctx.drive(drive, ["--cases", cases, "--n", "0"], "trace-gen.ndjson")
    ctx.monitor("mon-gen", "C02", "Trace_C02.tla", "Trace_C02.cfg", tr1, timeout=3000, **mon)
    # impl -> spec
    n = ctx.pick(1200, 10000)
    tr2 = ctx.drive(drive, ["--seed", str(ctx.seed), "--n", str(n), "--max-words", str(ctx.pick(20, 40))], "trace-rnd.ndjson")
    ctx.monitor("mon-rnd", "C02", "Trace_C02.tla", "Trace_C02.cfg", tr2, timeout=3000, **mon)
    return ctx.finish(
        rule="one event = one (dividend, divisor) pair executed in every division form (/, %, div_rem, Euclidean forms, assign "
             "forms, primitive divisors/dividends of every width, ConstDivisor, is_multiple_of); non-trivial = both operands non-zero",
        explanation="IntDivAlg (sign fix-up macros) model-checked exhaustively for |a|,|b| <= MaxV; DivLargeAlg (Knuth D and the divide-and-conquer recursion at word level, every assertion an obligation); DivWordAlg (single/double-word fast paths, "
                    "shift helpers, 2-by-1 division precondition) for all dividends of up to 4 three-bit words; Gen_C02 constructs a := q*b + r over "
                    "divisor/quotient size classes; Trace_C02 recomputes (q, r) with an independent Knuth-D on byte limbs and re-asserts the identity.",
        required_cover=["zero-divisor", "signs:++", "signs:+-", "signs:-+", "signs:--", "divisor:1w", "divisor:2w", "divisor:3-32w",
                        "divisor:>32w", "divide-and-conquer", "dword-power-of-two", "exact", "quotient-zero", "primitive-forms",
                        "euclid", "const-divisor", "types:UU", "types:II", "types:UI", "types:IU", "types:UC", "types:IC"] +
                       # the schoolbook division's `lhs_top == rhs_top` branch (quotient word MAX), counted by the library itself
                       (["branch:div-simple:equal-top-words"] if fw.has_probe() else []))


def selftest(ctx):
    drive = fw.build("std64", "c02")
    tr = ctx.drive(drive, ["--seed", "5", "--n", "40", "--max-words", "6"], "trace.ndjson")
    lines = open(tr).read().split("\n")
    idx = next(i for i, l in enumerate(lines) if l and json.loads(l)["b"]["m"] and json.loads(l)["lt"] == "U" and json.loads(l)["rt"] == "U")
    e = json.loads(lines[idx])
    g = [o for o in e["outs"] if o["out"]["k"] == "ok" and o["out"]["v"].get("hr") == 1][0]
    m = g["out"]["v"]["r"]["m"]
    if m:
        m[0] ^= 1
        if len(m) == 1 and m[0] == 0:
            m.pop()
    else:
        m.append(1)
    lines[idx] = json.dumps(e)
    open(tr, "w").write("\n".join(lines))
    v = ctx.monitor("selftest", "C02", "Trace_C02.tla", "Trace_C02.cfg", tr)
    known = {i + 1 for i, l in enumerate(lines) if l and any(o["out"]["k"] == "panic" for o in json.loads(l)["outs"]) and json.loads(l)["b"]["m"]}
    got = {b["i"] for b in v["bad"]} - known
    ok = got == {idx + 1}
    print("SELFTEST %s: corrupted event %d -> monitor flagged %s" % ("PASS" if ok else "FAIL", idx + 1, sorted(got)))
    return 0 if ok else 2
