"""C03 Float arithmetic honours the documented rounding contract of its mode.

Pipeline:
  1. MC_RoundNative: the native definition used by the algorithm-layer models is the same relation as
     spec/lib FloatDef!RoundedWhy (exhaustive in a scope);
  2. Gen_C03_add (FloatAdd model: add.rs alignment branches + repr_round_sum + round tables) and
     Gen_C03_mds (FloatMulDivSqrt model: repr_round of products, repr_div + round_ratio, sqrt) are model
     checked against the contract and, in the same pass, print a stratified sample of their `done`
     states as conformance cases with the predicted result;
  3. the harness replays every case through the Context method and every FBig operator/method form;
     Trace_C03 validates each recorded value/flag against FloatArithDef on BigInt rationals;
  4. seeded random operands at precisions up to 60 digits, bases {2,3,10,16,36}, huge exponent gaps,
     cancellation, ties, validated by the same monitor.
The models follow the code: a finding that is still open is modelled as it is in the tree (FarExtra = 1,
SqrtFix = FALSE) with the finding's predicate as the only excuse; once the entry is `fixed` the repaired
code is modelled and nothing is excused.
"""
import json
import os
import framework as fw

MODES = ["Zero", "Away", "Up", "Down", "HalfEven", "HalfAway"]
UNARY = ("sqr", "cubic", "inv", "sqrt")
WORKERS = 4


# ------------------------------------------------------------------ event helpers (no verdicts here)
def ndigits(v, base):
    v, n = abs(v), 0
    while v:
        v //= base
        n += 1
    return n


def sigdigits(v, base):
    if v == 0:
        return 0
    v = abs(v)
    while v % base == 0:
        v //= base
    return ndigits(v, base)


def enrich(e):
    """derived operand facts used by the known-finding matchers (computed on python ints, not by dashu)"""
    if "x" in e or "a" not in e:
        return e
    base = e["base"]
    a = fw.intval(e["a"]["sig"])
    x = {"da": ndigits(a, base), "ea": e["a"]["exp"]}
    if "b" in e:
        b = fw.intval(e["b"]["sig"])
        x.update({"db": ndigits(b, base), "eb": e["b"]["exp"]})
        if e["op"] in ("add", "sub") and a != 0 and b != 0:
            beff = -b if e["op"] == "sub" else b
            gap = abs(x["ea"] - x["eb"])
            big_is_a = x["ea"] > x["eb"]
            dl, ds = (x["da"], x["db"]) if big_is_a else (x["db"], x["da"])
            same = (a < 0) == (beff < 0)
            rndp = e["prec"] + (0 if same else 1)
            x.update({"gap": gap, "dl": dl, "ds": ds, "same_sign": same,
                      # add.rs far-apart shortcut, evaluated with the exact digit count of the small operand
                      "far": gap > 0 and ds + 1 < gap and ds + 1 + rndp < dl + gap})
    if e["op"] == "sqrt" and a > 0:
        # the integer handed to UBig::sqrt_rem by root.rs: significand scaled to 2p-1 / 2p (/ 2p+1) digits
        p, d, ex = e["prec"], x["da"], x["ea"]
        shifts = {2 * p - (d & 1) + (ex & 1) - d, 2 * p - ((d + ex) & 1) - d}
        bl = [(a * base ** s if s > 0 else abs(a) // base ** (-s)).bit_length() for s in shifts]
        # finding F17 of UBig::sqrt_rem: odd number (>= 3) of 64-bit words and at most one leading zero bit in the top word
        x["sqrt_rem_f17"] = any((n + 63) // 64 >= 3 and ((n + 63) // 64) % 2 == 1 and n % 64 in (0, 63) for n in bl)
    e["x"] = x
    return e


def cover(e):
    cs = ["op:" + e["op"], "base:%d" % e["base"], "mode:" + e["mode"], "src:" + e["src"]]
    p = e["prec"]
    cs.append("prec:1" if p == 1 else "prec:2-9" if p < 10 else "prec:10-39" if p < 40 else "prec:40+")
    if e.get("pa") != e.get("pb"):
        cs.append("operands-of-different-precision")
    if "class" in e:
        cs.append("class:" + e["class"])
    if "kind" in e:
        cs.append("kind:" + e["kind"])
    for b in e.get("branch", []):
        cs.append("br:" + b)
    if e.get("drift"):
        cs.append("drift")
    if len(e["outs"]) > 1:
        cs.append("forms-differ-within-contract")
    base = e["base"]
    for g in e["outs"]:
        if g["out"]["k"] != "ok":
            cs.append("panic")
            continue
        for f in g["flags"]:
            cs.append("flag:" + f)
        r = fw.intval(g["out"]["v"]["sig"])
        sd = sigdigits(r, base)
        if sd == p + 1:
            cs.append("result-p+1-digits")
        if r == 0:
            cs.append("result-zero")
    if e["op"] in ("add", "sub"):
        x = enrich(e)["x"]
        if "gap" in x:
            g = x["gap"]
            cs.append("gap:0" if g == 0 else "gap:<=p" if g <= p else "gap:<=2p+3" if g <= 2 * p + 3 else "gap:huge")
            if x["far"]:
                cs.append("far-apart-shortcut")
            cs.append("signs:same" if x["same_sign"] else "signs:opposite")
    return cs


def nontrivial(e):
    return fw.intval(e["a"]["sig"]) != 0 and ("b" not in e or fw.intval(e["b"]["sig"]) != 0)


def status(ctx, fid):
    # development aid (like VERIF_REPO): model the repaired code before the finding entry is flipped to fixed
    if fid in os.environ.get("VERIF_ASSUME_FIXED", "").split(","):
        return "fixed"
    for k in ctx.known:
        if k["id"] == fid:
            return k.get("status")
    return None


def witnesses(ctx, ids):
    out = []
    for k in ctx.known:
        if k["id"] in ids and status(ctx, k["id"]) == "open" and "witness" in k:
            w = dict(k["witness"])
            w["src"] = "wit"
            out.append(w)
    return out


def write_cases(ctx, name, cases, extra=()):
    cases = [c for c in cases if isinstance(c, dict)]
    cases.sort(key=lambda c: json.dumps(c, sort_keys=True))
    p = ctx.path("cases-%s.ndjson" % name)
    with open(p, "w") as f:
        for i, c in enumerate(list(extra) + cases):
            c.setdefault("id", i + 1)
            c.setdefault("src", "gen")
            f.write(json.dumps(c) + "\n")
    fw.log("[gen] %s: %d cases (+%d witnesses)" % (name, len(cases), len(extra)))
    return p, len(cases)


def monitor(ctx, name, trace, **kw):
    v = ctx.monitor(name, "C03", "Trace_C03.tla", "Trace_C03.cfg", trace, nontrivial=nontrivial, cover=cover, **kw)
    if any(b["why"] == "operand-outside-precondition" for b in v["bad"]):
        raise fw.ToolError("harness produced an operand outside the property's precondition (tool error, not a verdict)")
    return v


def run(ctx):
    drive = fw.build("std64", "c03")
    if ctx.replay:
        case = json.load(open(ctx.replay))["case"]
        p = ctx.path("replay-case.ndjson")
        open(p, "w").write(json.dumps(case) + "\n")
        tr = ctx.drive(drive, ["--cases", p, "--n", "0"], "trace-replay.ndjson")
        monitor(ctx, "replay", tr)
        for ev, _, _ in ctx.violations:
            enrich(ev)
        return ctx.finish()

    f02_open = status(ctx, "F02") != "fixed"
    f24_open = status(ctx, "F24") != "fixed"
    modes = fw.tla_set(MODES)

    # 1. the native definition of the models is the library definition
    cfg = fw.write_cfg(ctx.path("MC_RoundNative.cfg"), invariants=["Agree"],
                       constants={"Bases": "{2, 3, 10}", "MaxP": 2, "XMax": ctx.pick(24, 60), "RSpan": ctx.pick(6, 9),
                                  "MaxK": 1})
    ctx.mc("def-native-vs-lib", "C03", "MC_RoundNative.tla", cfg, workers=WORKERS, timeout=1500)

    # 2. algorithm layer, model checked; the same pass prints the conformance cases
    add_scope = ctx.pick([203, 302, 1001], [205, 303, 1001, 1601])
    mds_scope = ctx.pick([204, 302, 1001], [205, 303, 1002, 1601])
    ctx.scope.update({"FloatAdd": {"base*100+maxprec": add_scope, "gap": "0..p+4", "FarExtra": 1 if f02_open else 2},
                      "FloatMulDivSqrt": {"base*100+maxprec": mds_scope, "SqrtFix": not f24_open},
                      "modes": MODES})
    cfg = fw.write_cfg(ctx.path("Gen_C03_add.cfg"), invariants=["Correct", "Emit"],
                       constants={"Scope": fw.tla_set(add_scope), "Modes": modes, "GapExtra": 4,
                                  "FarExtra": 1 if f02_open else 2, "Stride": ctx.pick(16, 24),
                                  "RareStride": ctx.pick(4, 6), "Seed": ctx.seed % 997})
    r1 = ctx.mc("mc-gen-add", "C03", "Gen_C03_add.tla", cfg, workers=WORKERS, timeout=2400,
                required_actions=["Pick", "AlignTo", "AlignEqual", "RoundRepr", "RoundSumShrink", "RoundSumExpand",
                                  "RoundSumKeep", "RoundFinal"])
    cfg = fw.write_cfg(ctx.path("Gen_C03_mds.cfg"), invariants=["Correct", "ExpEven", "Emit"],
                       constants={"Scope": fw.tla_set(mds_scope), "Modes": modes,
                                  "Ops": fw.tla_set(["mul", "sqr", "cubic", "div", "inv", "sqrt"]),
                                  "SqrtFix": "FALSE" if f24_open else "TRUE", "Stride": ctx.pick(8, 40),
                                  "Seed": ctx.seed % 997})
    r2 = ctx.mc("mc-gen-mds", "C03", "Gen_C03_mds.tla", cfg, workers=WORKERS, timeout=2400,
                required_actions=["Pick", "Product", "RoundRepr", "DivExactFirst", "DivZeroQuot", "DivShortQuot",
                                  "DivLongQuot", "DivRound", "SqrtScale", "SqrtRoot"])
    # the open findings are real in the model of the pinned code: TLC exhibits them without running any Rust
    if f02_open:
        cfg = fw.write_cfg(ctx.path("MC_F02.cfg"), invariants=["F02Absent"],
                           constants={"Scope": "{202}", "Modes": '{"HalfAway"}', "GapExtra": 4, "FarExtra": 1})
        r = ctx.mc("mc-f02-by-model", "C03", "FloatAdd.tla", cfg, workers=2, expect_ok=False)
        ctx.violations = [v for v in ctx.violations if v[2] != "mc" or "F02Absent" not in v[0].get("invariant", [])]
        ctx.notes.append("F02 exhibited by model checking FloatAdd(FarExtra=1): %s" % bool(r.invariant_violated))
    if f24_open:
        cfg = fw.write_cfg(ctx.path("MC_F24.cfg"), invariants=["F24Absent"],
                           constants={"Scope": "{202}", "Modes": '{"HalfAway"}', "Ops": '{"sqrt"}', "SqrtFix": "FALSE"})
        r = ctx.mc("mc-f24-by-model", "C03", "FloatMulDivSqrt.tla", cfg, workers=2, expect_ok=False)
        ctx.violations = [v for v in ctx.violations if v[2] != "mc" or "F24Absent" not in v[0].get("invariant", [])]
        ctx.notes.append("F24 exhibited by model checking FloatMulDivSqrt(SqrtFix=FALSE): %s" % bool(r.invariant_violated))

    # 3. spec -> impl: replay in every call form, verdict by the monitor
    wit = witnesses(ctx, ("F02", "F24", "F17@C03"))
    c1, n1 = write_cases(ctx, "add", r1.tagged("GEN"), extra=wit)
    c2, n2 = write_cases(ctx, "mds", r2.tagged("GEN"))
    if n1 == 0 or n2 == 0:
        raise fw.ToolError("generator produced no cases")
    tr1 = ctx.drive(drive, ["--cases", c1, "--n", "0"], "trace-gen-add.ndjson")
    monitor(ctx, "mon-gen-add", tr1, timeout=2400)
    tr2 = ctx.drive(drive, ["--cases", c2, "--n", "0"], "trace-gen-mds.ndjson")
    monitor(ctx, "mon-gen-mds", tr2, timeout=2400)

    # 3b. very long discarded parts: round_fract decides "more / less than half" from float estimates of log2 before the
    # exact comparison; the estimates are only as good as f32, so the shortcut must stay sound when the part has thousands
    # of bits: products whose discarded half is one unit below / above half an ulp
    def wire(v):
        m = abs(v)
        return {"s": 1 if v < 0 else 0, "m": list(m.to_bytes((m.bit_length() + 7) // 8, "little"))}
    huge = []
    # (the monitor multiplies the operands exactly: ~25 s per case at this size, so the quick tier takes the two cases
    # that separate the two shortcut branches, the thorough tier every base / mode / side)
    plan = ctx.pick([(2, 6400, ("HalfEven", None, None, "HalfAway"))],
                    [(2, 9000, ("HalfEven", "HalfAway", "HalfEven", "HalfAway", "Up", "Zero")),
                     (10, 2800, ("HalfEven", "HalfAway", "HalfEven", "HalfAway", "Up", "Zero")),
                     (16, 1700, ("HalfEven", "HalfAway", "HalfEven", "HalfAway"))])
    for base, p, modes in plan:
        half = base ** p // 2
        for k, mode in enumerate(modes):
            if mode is None:
                continue
            b = half + 1 if k % 4 < 2 else half - 1          # (B^p - 1) * (B^p / 2 +- 1): discarded part = half -+ 1
            sign = -1 if k == 3 else 1
            huge.append({"op": "mul", "base": base, "mode": mode, "prec": p, "pa": p, "pb": p, "kind": "huge-fract",
                         "a": {"sig": wire(sign * (base ** p - 1)), "exp": 0}, "b": {"sig": wire(b), "exp": -p}})
    # one monitor per case, in threads next to the random pass (each is a single-threaded TLC run)
    import threading
    huge_threads, huge_err = [], []
    def huge_job(i, case):
        try:
            chi, _ = write_cases(ctx, "huge-%d" % i, [case])
            tri = ctx.drive(drive, ["--cases", chi, "--n", "0"], "trace-gen-huge-%d.ndjson" % i)
            monitor(ctx, "mon-gen-huge-%d" % i, tri, timeout=2400)
        except BaseException as ex:      # re-raised in the main thread
            huge_err.append(ex)
    for i, case in enumerate(huge):
        t = threading.Thread(target=huge_job, args=(i, case))
        t.start()
        huge_threads.append(t)
        if len(huge_threads) % 6 == 0:
            for t in huge_threads:
                t.join()

    # 4. impl -> spec: seeded random operands, large precisions, huge gaps
    n = ctx.pick(2500, 20000)
    tr3 = ctx.drive(drive, ["--seed", str(ctx.seed), "--n", str(n), "--max-prec", "60",
                            "--max-gap", str(ctx.pick(400, 800))], "trace-rnd.ndjson")
    monitor(ctx, "mon-rnd", tr3, timeout=3000)

    for t in huge_threads:
        t.join()
    if huge_err:
        raise huge_err[0]
    for ev, _, _ in ctx.violations:
        enrich(ev)
    req = ["op:" + o for o in ("add", "sub", "mul", "div", "sqrt", "sqr", "cubic", "inv")]
    req += ["base:%d" % b for b in (2, 3, 10, 16, 36)] + ["mode:" + m for m in MODES]
    req += ["src:gen", "src:rnd", "flag:Exact", "flag:NoOp", "flag:AddOne", "flag:SubOne", "result-p+1-digits",
            "result-zero", "gap:0", "gap:<=p", "gap:<=2p+3", "gap:huge", "far-apart-shortcut", "signs:same",
            "signs:opposite", "operands-of-different-precision", "prec:1", "prec:2-9", "prec:10-39", "prec:40+",
            "class:tie", "class:cancel-zero", "class:cancel-deep", "class:cancel-one", "class:carry", "class:exact",
            "kind:tie", "kind:near-tie", "kind:near-cancel", "kind:equal-magnitude", "kind:carry", "kind:exact-quotient",
            "kind:half-quotient", "kind:perfect-square", "kind:half-root", "kind:parity", "kind:zero-operand",
            "br:ls-far", "br:sl-far", "br:ls-full", "br:sl-full", "br:ls-both", "br:sl-both", "br:ls-shift", "br:sl-shift",
            "br:equal", "br:shrink", "br:expand", "br:keep", "br:round", "br:mul", "br:sqr", "br:cubic",
            "br:div-exact-first", "br:div-zero-quot", "br:div-short-quot", "br:div-long-quot", "br:ratio",
            "br:sqrt-2p", "br:sqrt-2p-1", "br:rem", "br:rem0"]
    if wit:
        req.append("src:wit")
    return ctx.finish(
        rule="one event = one operation on one operand pair (or operand) at one (base, mode, precision), executed through the "
             "Context method and every FBig operator/method form; distinct = distinct (op, base, mode, precisions, operands, "
             "outcomes); non-trivial = no zero operand",
        explanation="FloatAdd / FloatMulDivSqrt (algorithm layer, one action per branch of add.rs, mul.rs, div.rs, root.rs, "
                    "round.rs) are model checked against the rounding contract in a small scope and print a stratified "
                    "sample of their final states; every case and every seeded random call is validated by Trace_C03 "
                    "against FloatDef!RoundedWhy on exact BigInt rationals (sqrt through squares). MC_RoundNative proves "
                    "the native contract of the models equal to the library contract in its scope.",
        extra={"notes": ctx.notes},
        required_cover=req)


def selftest(ctx):
    """binding demonstration: corrupt one recorded value and one recorded flag; the monitor must flag exactly those"""
    drive = fw.build("std64", "c03")
    tr = ctx.drive(drive, ["--seed", "11", "--n", "80", "--max-prec", "30", "--max-gap", "100"], "trace.ndjson")
    v0 = ctx.monitor("selftest-base", "C03", "Trace_C03.tla", "Trace_C03.cfg", tr)
    base_bad = {b["i"] for b in v0["bad"]}
    lines = open(tr).read().split("\n")
    targets = [i for i in range(20, 75) if (i + 1) not in base_bad][:40]
    # a value: add one unit in the last place of the returned significand of every form group
    iv = targets[3]
    e = json.loads(lines[iv])
    for g in e["outs"]:
        m = g["out"]["v"]["sig"]["m"]
        if m:
            m[0] = m[0] + 1 if m[0] < 255 else 254
        else:
            m.append(1)
    lines[iv] = json.dumps(e)
    # a flag: Exact -> NoOp, anything else -> Exact
    it = targets[17]
    e = json.loads(lines[it])
    for g in e["outs"]:
        g["flags"] = ["NoOp" if f == "Exact" else "Exact" for f in g["flags"]]
    lines[it] = json.dumps(e)
    open(tr, "w").write("\n".join(lines))
    v = ctx.monitor("selftest", "C03", "Trace_C03.tla", "Trace_C03.cfg", tr)
    got = sorted({b["i"] for b in v["bad"]} - base_bad)
    want = sorted([iv + 1, it + 1])
    ok = got == want and base_bad <= {b["i"] for b in v["bad"]}
    print("SELFTEST %s: corrupted events %s -> monitor newly flagged %s" % ("PASS" if ok else "FAIL", want, got))
    return 0 if ok else 2
