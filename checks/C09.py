"""C09 Bit operations follow infinite two's-complement semantics."""
import json
import os
import re
import framework as fw

BIN = ("and", "or", "xor")


def cover(e):
    cs = ["op:" + e["op"], "src:" + e["src"]]
    a = fw.intval(e["a"])
    wa = fw.nwords(e["a"])
    if e["op"] in BIN:
        cs.append("types:%s%s" % (e["lt"], e["rt"]))
        b = fw.intval(e["b"])
        cs.append("signs:%s%s" % ("-" if a < 0 else "+", "-" if b < 0 else "+"))
        if sum(len(o["forms"]) for o in e["outs"]) > 10:
            cs.append("primitive-forms")
    if e["op"] in ("shl", "shr", "bitn"):
        n = e["n"]
        if n % 64 == 0 and n > 0:
            cs.append("pos:word-multiple")
        if n >= 64 * wa and wa > 0:
            cs.append("pos:beyond-length")
        if e["op"] == "shr" and a < 0:
            cs.append("shr-negative")
            if wa <= 2:
                cs.append("shr-negative-inline")
            if (-a) & ((1 << n) - 1) == 0:
                cs.append("shr-negative-exact")
    if e["op"] in ("query", "bitn") and a < 0:
        cs.append("query-negative")
    cs.append("words:%s" % (wa if wa <= 3 else ">3"))
    if a != 0 and (abs(a) + 1) & abs(a) == 0:
        cs.append("all-ones")
    if a != 0 and abs(a) & (abs(a) - 1) == 0:
        cs.append("power-of-two")
    return cs


def nontrivial(e):
    return len(e["a"]["m"]) > 0 or e["op"] == "ones"


def low_cap_from_source(w):
    """binds the model constant LowCap to the code: which width does are_dword_low_bits_nonzero clamp to?"""
    try:
        src = open(os.path.join(os.environ.get("VERIF_REPO", "/repo"), "integer/src/bits.rs")).read()
        m = re.search(r"fn are_dword_low_bits_nonzero\(.*?\)\s*->\s*bool\s*\{(.*?)\n    \}", src, re.S)
        body = m.group(1)
        if "n.min(WORD_BITS_USIZE)" in body:
            return w, "bound: n.min(WORD_BITS_USIZE)"
        if "n.min(DWORD_BITS_USIZE)" in body:
            return 2 * w, "bound: n.min(DWORD_BITS_USIZE)"
    except Exception:
        pass
    return 2 * w, "unbound (source pattern not recognised; conformance traces still decide)"


def shr_dword_strict_from_source():
    """binds ShiftAlg!ShrDwordStrict to the comparison in shr_dword"""
    try:
        src = open(os.path.join(os.environ.get("VERIF_REPO", "/repo"), "integer/src/shift_ops.rs")).read()
        m = re.search(r"fn shr_dword\(.*?\{\s*if rhs (<=|<) DWORD_BITS_USIZE", src, re.S)
        return ("TRUE" if m.group(1) == "<" else "FALSE"), "bound: rhs %s DWORD_BITS_USIZE" % m.group(1)
    except Exception:
        return "TRUE", "unbound (source pattern not recognised)"


def run(ctx):
    drive = fw.build("std64", "c09")
    mon = dict(nontrivial=nontrivial, cover=cover)
    if ctx.replay:
        case = json.load(open(ctx.replay))["case"]
        if str(case.get("op", "")).startswith("model:"):
            print("model counterexample: see " + case.get("log", ""))
            return 1
        p = ctx.path("replay-case.ndjson")
        open(p, "w").write(json.dumps(case) + "\n")
        tr = ctx.drive(drive, ["--cases", p, "--n", "0"], "trace-replay.ndjson")
        ctx.monitor("replay", "C09", "Trace_C09.tla", "Trace_C09.cfg", tr)
        return ctx.finish()
    # algorithm layer
    w = 3
    cap, how = low_cap_from_source(w)
    maxv = ctx.pick(300, 520)
    ctx.scope.update({"BitsAlg": {"W": w, "MaxV": maxv, "MaxShift": 12, "LowCap": cap, "LowCap_binding": how}})
    cfg = fw.write_cfg(ctx.path("MC_BitsAlg.cfg"), invariants=["AndOK", "OrOK", "XorOK", "NotOK", "ShrOK", "BitOK"],
                       constants={"W": w, "MaxV": maxv, "MaxShift": 12, "Win": 12, "LowCap": cap})
    ctx.mc("mc-bitsalg", "C09", "BitsAlg.tla", cfg, required_actions=["PickPair", "PickShift"])
    strict, how2 = shr_dword_strict_from_source()
    cfg = fw.write_cfg(ctx.path("MC_ShiftAlg.cfg"), invariants=["ShlOK", "ShrOK"],
                       constants={"W": 3, "MaxV": ctx.pick(4200, 33000), "MaxShift": 14, "ShrDwordStrict": strict})
    ctx.mc("mc-shiftalg", "C09", "ShiftAlg.tla", cfg, required_actions=["Pick"])
    ctx.scope["ShiftAlg"] = {"W": 3, "ShrDwordStrict": strict, "binding": how2}
    # spec -> impl
    classes = ctx.pick([0, 1, 2, 3, 4, 9], [0, 1, 2, 3, 4, 5, 9, 24, 33])
    k = ctx.pick(3, 8)
    ctx.scope.update({"classes_words": classes, "variants": k})
    cfg = fw.write_cfg(ctx.path("Gen_C09.cfg"), invariants=["Emit"],
                       constants={"Classes": fw.tla_set(classes), "K": k, "Seed": ctx.seed % 1000})
    cases, _ = ctx.gen("gen", "C09", "Gen_C09.tla", cfg, libs=("C01",))
    ctx.append_witnesses(cases)
    tr1 = ctx.drive(drive, ["--cases", cases, "--n", "0"], "trace-gen.ndjson")
    ctx.monitor("mon-gen", "C09", "Trace_C09.tla", "Trace_C09.cfg", tr1, **mon)
    # impl -> spec
    n = ctx.pick(2500, 25000)
    tr2 = ctx.drive(drive, ["--seed", str(ctx.seed), "--n", str(n), "--max-words", str(ctx.pick(6, 20))], "trace-rnd.ndjson")
    ctx.monitor("mon-rnd", "C09", "Trace_C09.tla", "Trace_C09.cfg", tr2, timeout=3000, **mon)
    return ctx.finish(
        rule="one event = one operation on one operand (pair) executed in every call form; non-trivial = non-zero first operand",
        explanation="BitsAlg (sign-case tables, IBig::bit, Shr floor correction over a 3-bit word) model-checked exhaustively against "
                    "the bit-string definition; Gen_C09 enumerates op x type pair x word count x pattern x position; Trace_C09 validates "
                    "every recorded call with BigInt two's-complement windows.",
        required_cover=["op:and", "op:or", "op:xor", "op:not", "op:shl", "op:shr", "op:query", "op:bitn", "op:ones",
                        "signs:++", "signs:+-", "signs:-+", "signs:--", "types:UU", "types:II", "types:UI", "types:IU",
                        "primitive-forms", "pos:word-multiple", "pos:beyond-length", "shr-negative", "shr-negative-inline",
                        "shr-negative-exact", "query-negative", "words:1", "words:2", "words:3", "words:>3", "all-ones", "power-of-two"])


def selftest(ctx):
    drive = fw.build("std64", "c09")
    tr = ctx.drive(drive, ["--seed", "5", "--n", "80", "--max-words", "4"], "trace.ndjson")
    lines = open(tr).read().split("\n")
    idx = next(i for i, l in enumerate(lines) if l and json.loads(l)["op"] == "shr" and json.loads(l)["a"]["m"])
    e = json.loads(lines[idx])
    m = e["outs"][0]["out"]["v"]["m"]
    if m:
        m[0] ^= 1
        if len(m) == 1 and m[0] == 0:
            m.pop()
            e["outs"][0]["out"]["v"]["s"] = 0
    else:
        m.append(1)
    lines[idx] = json.dumps(e)
    open(tr, "w").write("\n".join(lines))
    v = ctx.monitor("selftest", "C09", "Trace_C09.tla", "Trace_C09.cfg", tr)
    ok = [b["i"] for b in v["bad"]] == [idx + 1]
    print("SELFTEST %s: corrupted event %d -> monitor flagged %s" % ("PASS" if ok else "FAIL", idx + 1, [b["i"] for b in v["bad"]]))
    return 0 if ok else 2
