#!/usr/bin/env python3
"""Confirms a seeded change produced by an independent sub-agent and runs the checks against it.

  seedeval.py <PROP> <i> [check ids...]     e.g. seedeval.py C09 1 C09 C15

Uses the sub-agent's scratch worktree /tmp/mut-<PROP> (a worktree of /repo): applies patch.diff there, runs the
repository's test suite (must pass), the demonstration (must fail), the listed checks with VERIF_REPO pointing at
the worktree (recording exit code and VIOLATION lines), then restores the worktree and runs the demonstration
again (must pass).  Writes /verif/seeded/<PROP>-<i>/{patch.diff,demo.rs,demo/,meta.json}."""
import json, os, shutil, subprocess, sys, time
prop, i = sys.argv[1], sys.argv[2]
checks = sys.argv[3:] or [prop]
rnd = os.environ.get("SEED_ROUND", "r1")
wt, src = os.environ.get("SEED_WT", "/tmp/mut-%s" % prop), os.environ.get("SEED_SRC", "/tmp/mut-%s-out-%s" % (prop, rnd)) + "/" + i
dst = "/verif/seeded/%s-%s%s" % (prop, "" if rnd == "r1" else rnd + "-", i)
env = dict(os.environ, CARGO_NET_OFFLINE="true", CARGO_TARGET_DIR=wt + "/target")
def sh(cmd, cwd=None, e=env, timeout=3600):
    p = subprocess.run(cmd, shell=True, cwd=cwd, env=e, text=True, stdout=subprocess.PIPE, stderr=subprocess.STDOUT, timeout=timeout)
    return p.returncode, p.stdout
res = {"property": prop, "mutant": i, "round": rnd, "confirmed_at": time.strftime("%Y-%m-%d %H:%M")}
sh("git checkout -- .", cwd=wt)
rc, out = sh("git apply --check %s/patch.diff && git apply %s/patch.diff" % (src, src), cwd=wt)
assert rc == 0, out
rc, out = sh("cargo test --workspace --offline 2>&1 | grep -E '^test result|FAILED|panicked|^error'", cwd=wt)
lines = out.strip().splitlines()
res["suite_with_change"] = {"ok_lines": sum(l.startswith("test result: ok") for l in lines), "bad_lines": [l for l in lines if not l.startswith("test result: ok")]}
demo = src + "/demo"
meta0 = json.load(open(os.path.join(src, "meta.json")))
# demonstrations that need a particular build configuration say so in meta.json ("demo_flags", "demo_env")
dflags = os.environ.get("DEMO_FLAGS", meta0.get("demo_flags", "") or "")
# keep only real cargo flags (some agents wrote prose, or repeated --offline)
dflags = " ".join(t for t in dflags.split() if t.startswith("--") and t != "--offline" and len(t) < 40)
denv = dict(env, CARGO_TARGET_DIR=wt + "/target/demo")
drf = os.environ.get("DEMO_RUSTFLAGS", meta0.get("demo_rustflags", "") or "")
if drf:
    denv["RUSTFLAGS"] = drf
rc1, _ = sh("cargo run --offline %s >/dev/null 2>&1" % dflags, cwd=demo, e=denv)
res["demo_with_change_exit"] = rc1
res["checks"] = {}
for c in checks:
    t = time.time()
    rc, out = sh("./check %s --tier quick" % c, cwd="/verif", e=dict(os.environ, VERIF_REPO=wt), timeout=7200)
    v = [l for l in out.splitlines() if l.startswith("VIOLATION") or l.startswith("TOOL-ERROR") or l.startswith("  why=")]
    res["checks"][c] = {"exit": rc, "violations": len([l for l in v if l.startswith("VIOLATION")]), "lines": v[:8], "wall_s": round(time.time() - t)}
    # keep one replay file as evidence of detection
    for l in v:
        if l.startswith("VIOLATION") and "replay=" in l:
            rp = l.split("replay=")[1].strip()
            if os.path.exists(rp):
                os.makedirs(dst, exist_ok=True)
                shutil.copy(rp, os.path.join(dst, "detected-by-%s.json" % c))
            break
    # remove only this run's directory (other runs of the same check may be in flight)
    dirs = {os.path.dirname(l.split("replay=")[1].strip()) for l in v if l.startswith("VIOLATION") and "replay=" in l}
    for d in dirs:
        if d.startswith("/verif/run/"):
            shutil.rmtree(d, ignore_errors=True)
sh("git checkout -- .", cwd=wt)
rc2, _ = sh("cargo run --offline %s >/dev/null 2>&1" % dflags, cwd=demo, e=denv)
res["demo_without_change_exit"] = rc2
res["confirmed"] = (not res["suite_with_change"]["bad_lines"]) and res["suite_with_change"]["ok_lines"] > 30 and rc1 != 0 and rc2 == 0
os.makedirs(dst, exist_ok=True)
for f in ("patch.diff", "demo.rs"):
    shutil.copy(os.path.join(src, f), dst)
shutil.rmtree(os.path.join(dst, "demo"), ignore_errors=True)
shutil.copytree(demo, os.path.join(dst, "demo"), ignore=shutil.ignore_patterns("target"))
meta = json.load(open(os.path.join(src, "meta.json")))
# keep the history of earlier evaluations (a change that escaped first and is caught after a check was strengthened)
old = os.path.join(dst, "meta.json")
hist = []
if os.path.exists(old):
    try:
        o = json.load(open(old))
        hist = o.get("history", []) + [{"at": o["verification"].get("confirmed_at"), "checks": {c: r["exit"] for c, r in o["verification"]["checks"].items()}}]
    except Exception:
        pass
meta["history"] = hist
meta["verification"] = res
meta["detected_by"] = [c for c in checks if res["checks"][c]["exit"] == 1]
json.dump(meta, open(os.path.join(dst, "meta.json"), "w"), indent=1)
print(json.dumps({"id": "%s-%s" % (prop, i), "confirmed": res["confirmed"], "detected_by": meta["detected_by"],
                  "checks": {c: (r["exit"], r["violations"]) for c, r in res["checks"].items()}}))
