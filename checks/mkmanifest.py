#!/usr/bin/env python3
"""Regenerates MANIFEST.json from the table below (single source of truth for what is claimed)."""
import json, os
ROOT = os.path.dirname(os.path.dirname(os.path.abspath(__file__)))
ALL = ["C%02d" % i for i in range(1, 21)]
CLAIMED = {
 "C01": dict(
    text="TLC enumerates the operation x type-pair x size-class x bit-pattern partition of + - * sqr cubic pow (Gen_C01), the "
         "real library executes every case in every call form, and a TLC trace monitor (Trace_C01) validates each recorded "
         "result against an independent big-integer arithmetic written in TLA+ (BigInt, itself model-checked against TLC's "
         "native integers); seeded random chains add unbalanced operands up to 70 words. The code's algorithms are transcribed at word level "
         "and model-checked: IntAddAlg (add_ops.rs), IntMulAlg (simple / Karatsuba / Toom-3 / chunk helper / squaring with every debug "
         "assertion as an obligation) and MulMemAlg (scratch-memory recurrence against the requirement formulas read from the source).",
    note="Trusted: TLC, the BigNat/BigInt TLA+ library (self-checked on every fresh setup), raw word accessors "
         "as_words/from_words used to move operands across the wire. Bounded: operands <= ~100 words exactly; Toom-3 sizes only in the thorough tier.",
    technique="TLA+ definition-layer spec + TLC-generated cases replayed into the code + TLC trace validation",
    design="5.C01"),
 "C02": dict(
    text="The sign fix-up macros of every division form are transcribed into TLA+ (IntDivAlg) and model-checked exhaustively for "
         "|a|,|b| <= 70 (160 thorough) against the truncating/Euclidean definitions; TLC constructs dividends a := q*b + r over divisor x "
         "quotient size classes (single word, double word incl. powers of two, both sides of the divide-and-conquer switch) and the "
         "library executes each in every form (/, %, div_rem, Euclidean, assign, primitives of all widths on either side, ConstDivisor, "
         "is_multiple_of); the trace monitor recomputes (q, r) with an independent Knuth-D on byte limbs and re-asserts a = q*b + r.",
    note="Trusted: TLC, BigNat!DivMod (guarded by the re-asserted identity, a flaw there is a tool error). Operands up to ~70 words. "
         "Known finding F11/C02 (negative IBig % unsigned primitive panics) is matched by call form and input class.",
    technique="TLA+ algorithm-layer model checked by TLC + TLC-generated cases replayed into the code + TLC trace validation",
    design="5.C02"),
 "C09": dict(
    text="The sign-case tables of & | ^ !, IBig::bit and the floor correction of IBig >> n (are_low_bits_nonzero in its double-word and "
         "slice variants) are transcribed into TLA+ over a 3-bit word (BitsAlg) and model-checked exhaustively (370 k states) against the "
         "bit-string definition, with the clamp constant of are_dword_low_bits_nonzero read from the source; TLC enumerates op x type pair x "
         "word count x pattern x bit position (Gen_C09), the library executes every case in every call form (owned/borrowed/assign, all "
         "primitive widths on either side, mixed UBig/IBig), and a TLC monitor validates each result with two's-complement windows on BigInt.",
    note="Trusted: TLC, BigInt window arithmetic (self-checked against native integers). Operands up to ~33 words in GEN, 20 words random.",
    technique="TLA+ algorithm-layer model checked by TLC + TLC-generated cases replayed into the code + TLC trace validation",
    design="5.C09"),
 "C15": dict(
    text="The call-form inventory (63 operation keys, 1903 forms: owned/borrowed operands, compound assignment, every primitive width on "
         "either side, trait-method forms, Euclidean forms, ConstDivisor, Context method vs FBig operator, Reduced operators) is a TLA+ "
         "constant (Inventory.tla); the drivers of C01/C02/C09 plus a float/rational/modular forms driver execute every form per operand "
         "tuple and a TLC monitor (Trace_C15) requires agreement of all forms (division: on every shared part) and membership in the "
         "inventory; clone/clone_from independence is a TLA+ register machine validated step by step against recorded register files.",
    note="Trusted: TLC; grouping of byte-identical outcomes in the harness. At least 90% of the inventory must be exercised per run "
         "(measured, else tool error). Known finding F11/C15 (unsigned-primitive-typed division results) matched by form and input class.",
    technique="TLA+ form inventory + register machine, TLC trace validation of recorded call forms",
    design="5.C15"),
 "C19": dict(
    text="The same TLC-generated and seeded cases of the C01/C02/C09 families are executed by the harness built in four configurations "
         "(64-bit debug, release without debug assertions, force_bits=32, no_std); every configuration's trace is validated by the family's "
         "definition monitor, and a TLC monitor over the merged traces (Trace_C19) requires identical outcomes per case. Serialization: the "
         "binary integer format is specified byte for byte in TLA+ (SerdeDef: LEB128 frame, little-endian magnitude, sign in the length "
         "parity) with no reference to a word size; serde_json/postcard round trips of UBig/IBig/FBig/DBig/RBig/Relaxed and decoding of "
         "mutated, zero-padded, unreduced, unnormalized and zero-denominator streams must give an error or a canonical value, never a panic.",
    note="Trusted: TLC, cargo/rustc producing the four builds from /repo's working tree. force_bits=16 does not build (known finding F26). "
         "log2 bounds per build are checked by C12.",
    technique="TLC trace validation of one case file under four build configurations + TLA+ wire-format definition",
    design="5.C19"),
 "C03": dict(
    text="Algorithm-layer models of float add/sub (alignment branches, far-apart shortcut, digit over-estimate as a nondeterministic "
         "choice, round_sum) and of mul/div/sqrt/sqr/cubic/inv with the six rounding tables are model-checked exhaustively in a small scope "
         "(bases 2/3/10, p <= 3, 0.7 M states quick, 8 M thorough) against the rounding contract FloatDef!Rounded (exact-flag truth, < 1 ulp at "
         "the exact value, <= 1/2 ulp and tie rule for the half modes, side by mode, AddOne/SubOne direction, exactness when representable, "
         "at most p+1 digits); every model state is a generated case; the library executes them and seeded operands up to 60 digits in bases "
         "2/3/10/16/36 in Context and operator forms, and a TLC monitor decides each result on exact rationals (Rat on BigInt).",
    note="Trusted: TLC, spec/lib Rat/FloatDef (MC_RoundNative proves the native small-scope definition equal to FloatDef!RoundedWhy). "
         "Operands fit the context precision as the property states. Known defects F02, F24 (and F17's effect on sqrt) are repaired in /repo.",
    technique="TLA+ algorithm-layer models checked by TLC against a rounding contract + generated cases + TLC trace validation on exact rationals",
    design="I.3 C03"),
 "C04": dict(
    text="RatioOps transcribes add/sub via gcd(b,d) with reduce_with_hint, mul/div cross-gcd, the integer-mixed forms, inv, pow, % and the "
         "Euclidean forms; TLC checks it exhaustively for numerators -8..8 (-12..12 thorough) against exact values and canonicity, and as a "
         "2-register history machine shows canonicity inductive. Conformance is a pool machine: the monitor keeps its own register file of "
         "rationals (Rat), every event is dst := op(srcs) with the observed num/den, the monitor compares value, canonical form (Euclid on "
         "BigNat; untrusted Bezout hints re-verified for large components), Relaxed = RBig value, and the panic on zero divisors.",
    note="Trusted: TLC, Rat/BigNat. Known defect F20 (inv of zero) repaired in /repo.",
    technique="TLA+ algorithm model + history machine checked by TLC, pool-machine trace validation",
    design="I.3 C04"),
 "C05": dict(
    text="ReprLayer models the constructors/transitions of the integer representation over a 2-bit word (from_word/dword/buffer, ones, clone, "
         "clone_from, into/from words, neg) with a heap model; TLC checks Canonical (211 k states quick, 1.5 M thorough). A pool machine "
         "(UBig, IBig, FBig base 2/10 x 4 modes, RBig/Relaxed) runs TLC-enumerated depth-3 histories over the inline/heap boundary constants "
         "plus random histories; after each step ALL PAIRS of registers are compared with ==, cmp, reverse cmp and hash, and the monitor "
         "requires them to follow the exact values (BigInt/Rat), cmp Equal <=> ==, equal => equal hash, transitivity, and canonical hook triples.",
    note="Trusted: TLC, BigInt/Rat, the cfg(dashu_verif) accessor. F01 (ones(128) on the heap) and F42/F41/F90 repaired in /repo; "
         "F05/C05 (with_base can return more digits than the precision, which the float comparison trusts) is an open finding.",
    technique="TLA+ representation model checked by TLC + all-pairs pool-machine trace validation",
    design="I.3 C05"),
 "C06": dict(
    text="Ieee(M, Emin, Emax) defines IEEE-754 binary formats in TLA+ (value of a pattern, round-to-nearest-even of an exact rational incl. "
         "subnormals/overflow, error sign); IeeeEncode transcribes FloatEncoding::encode into 8 branches and is model-checked exhaustively on "
         "a mini format and on binary32/64 boundary families. TLC generates the boundary lattice of every conversion (2^24, 2^53, 2^64, 2^128, "
         "overflow thresholds, 24/25- and 53/54-bit quotients, ties, subnormals, NaN/inf/-0, every primitive width) and a monitor checks "
         "lossless-or-refused with round trip for From/TryFrom, and correct rounding + truthful flag + error sign for to_f32/to_f64/to_float/to_int.",
    note="Trusted: TLC, Ieee.tla (self-checked on a mini float by brute force). to_f*_fast only bounded. Repaired: F06 F07 F08 F60 F63. "
         "Open findings (class matchers): F05 F09 F31 F64 F66. Repaired: F06 F07 F08 F60 F61 F62 F63.",
    technique="TLA+ IEEE-754 definition + encode model checked by TLC + generated boundary cases + TLC trace validation",
    design="I.3 C06"),
 "C07": dict(
    text="TextDef defines positional digits (checked by Horner on BigNat), the literal grammar (sign, prefix, underscores, case), the exact "
         "padded layout for every formatter flag, two's-complement bytes and chunks; FmtLayoutAlg (one action per branch of format_prepared) is "
         "model-checked against Layout for all flag combinations x widths; TLC generates lengths on both sides of the per-word, 16/256-chunk and "
         "divide-and-conquer thresholds of the radix converters x radices, one-edit mutations of literals, byte magnitudes around 256^k, chunk "
         "sizes; the monitor validates digits exactly up to 2000 digits (residues modulo six primes beyond: sampled) and Rust's own i128 "
         "formatting is a second oracle for the layout. Word-level models checked by TLC in small scope: RadixPow2Alg (power-of-two radices), "
         "ParseDcAlg (divide-and-conquer parser), PrintNp2Alg (non-power-of-two printer with its power tower), BytesAlg (byte encodings, "
         "two's complement), ChunksAlg (bit chunks).",
    note="Trusted: TLC, BigNat radix conversion. Beyond 2000 digits the digit check can miss but never falsely accuses. F13 F14 F27 repaired.",
    technique="TLA+ layout model checked by TLC + generated threshold cases + TLC trace validation",
    design="I.3 C07"),
 "C08": dict(
    text="FloatTextDef defines the float literal grammar (point, e/p/b/o/h/@ markers, hex float) with value and precision, print-parse identity, "
         "fixed-precision printing and base/precision changes through FloatDef!Rounded; ConvertBaseAlg models the branch structure of convert_base "
         "(same base, power up/down, small exponent, large exponent abstracted) and is model-checked in bases {2,3,4,8,10,16}; TLC generates grammar "
         "derivations, round trips with exponents to +-400, precision printing in six modes, 36 base pairs around the exponent threshold; the "
         "monitor decides everything on exact rationals. FloatParseAlg models the digit-count / exponent arithmetic of the parser over a scaled-down "
         "isize. Beyond the statement (reported as BEYOND-PROPERTY, never a violation): FloatFmtAlg models the width computation of the float "
         "formatter and every print case is also printed with widths / fills / alignments and compared with core::fmt's layout of the unpadded text.",
    note="Trusted: TLC, Rat/FloatDef. Open findings: F05/C08, F30, C08.N1 (residual bound 2 ulp enforced), C08.N2.",
    technique="TLA+ branch model checked by TLC + grammar-derived cases + TLC trace validation on exact rationals",
    design="I.3 C08"),
 "C10": dict(
    text="The six round_low_part tables, round_fract and round_ratio (log2 pre-filter abstracted as any valid bounds) are model-checked against a "
         "brute-force nearest-neighbour definition (252 k states quick, 1.4 M thorough); FloatSplit models split_at_point_internal and the "
         "trunc/floor/ceil/round/fract/to_int/with_precision family (0.6 M / 7 M states); all model states are replayed, plus RBig/Relaxed rounding "
         "and round_fract at 9 000-40 000 digits; the monitor checks the named neighbour, trunc + fract = x and flag truth on exact rationals.",
    note="Trusted: TLC, Rat/FloatDef. F04 and F90 (and their follow-ups F04b/F04c/F90b) repaired in /repo.",
    technique="TLA+ rounding-table and split models checked by TLC + TLC trace validation",
    design="I.3 C10"),
 "C11": dict(
    text="Enclosure.tla is rigorous interval arithmetic on BigInt fixed point written in TLA+ (exp by argument reduction + Taylor with remainder "
         "bound, ln by atanh series, powf by composition; self-checked against 60-digit constants and x in exp(ln x)); ExpLogAlg models the "
         "discrete dispatch of exp.rs/log.rs (special values, sign handling, powi by squaring and inversion, refusal of unlimited precision) and is "
         "model-checked for 234 input classes; TLC generates 191 argument shapes x 5 bases x 15 precisions and the monitor decides |r - x| < 1 ulp "
         "three-valued (holds / fails for the whole enclosure / undecided -> re-enclose, never alarm) and Exact only for rational exact results.",
    note="Trusted: TLC, Enclosure.tla. Precision <= 40 quick (100/300 sampled thorough). Open class findings with residual bounds and a rate "
         "guard: F32 (>= 1 ulp errors), F32b (Exact on irrational results), F32d (ln of operands wider than the precision). F32c repaired.",
    technique="TLA+ interval-arithmetic definition + dispatch model checked by TLC + TLC trace validation",
    design="I.3 C11"),
 "C12": dict(
    text="NumTheoryDef states gcd/gcd_ext, roots with remainders, ilog, remove and log2 bounds as relations on BigNat (Euclid, powers, rigorous "
         "2^f enclosures; undecidable-close log2 cases are accepted); Log2Table transcribes the table-driven no_std log2 estimator and is "
         "model-checked for every u16 (98 k states) and compared with the recorded no_std outputs; TLC generates planted-gcd pairs (Fibonacci, "
         "k/k+1, Lehmer quotient-overflow shapes), s^n + r radicands with odd/even word counts, b^e +- 1; primitives are exhaustive for u8 (u16 by "
         "stride in quick, complete in thorough) in std, no_std and release builds. Word-level models checked by TLC: SqrtAlg (Karatsuba square "
         "root), GcdLehmerAlg (Lehmer loop), GcdExtAlg (extended gcd with its cofactor buffers; word-sized gcd_ext), IlogAlg, RootRemoveAlg (Newton "
         "nth_root, remove), PrimSqrtAlg (u128 square root of dashu-base); continued-fraction operands with a huge partial quotient where the "
         "cofactors cross a word boundary drive the extended gcd (this is how F91 shows at 64 bits).",
    note="Trusted: TLC, BigNat. f32 patterns: exponent x mantissa lattice, not all patterns. Repaired: F15 F16 F17 F18 F29 F50 F91.",
    technique="TLA+ relational definitions + estimator model checked by TLC + TLC trace validation in three build configurations",
    design="I.3 C12"),
 "C13": dict(
    text="ModularAlg models the pre-shifted residues, conditional subtract/borrow, negate, dbl, sqr, mul and the Reducer methods for 2-bit words x "
         "1-3 words (single, double, large representations; 600 k states) and is model-checked against the homomorphism; TLC generates 21 modulus "
         "classes x 11 ops x 10 operand shapes; the monitor reduces with BigNat!Mod, replays pow by square-and-multiply, checks inv <=> gcd = 1, "
         "division, cross-ring panics, in debug and release builds. ModPowAlg models the sliding-window power loop, ModInvAlg the inverse in a "
         "large ring through the three extended-gcd paths (on C12's GcdExtAlg).",
    note="Trusted: TLC, BigNat!DivMod. Repaired: F23, F51 (and F34 found by C02).",
    technique="TLA+ algorithm model checked by TLC + generated cases + TLC trace validation",
    design="I.3 C13"),
 "C14": dict(
    text="OrderLadder models the comparison ladders of the three num_order modules (sign -> log2-bound filter -> exact comparison) with the log2 "
         "bounds abstracted as ANY admissible pair, and TLC shows they never contradict the exact order (580 k states quick, 3 M thorough); the "
         "harness compares all ordered pairs of a mixed-type pool (UBig, IBig, FBig in several bases, RBig, Relaxed, all primitive ints and floats, "
         "equal-across-type values, last-bit neighbours, 10^+-400, infinities, -0.0, NaN) through NumOrd/AbsOrd/NumHash and the monitor decides on "
         "exact rationals.",
    note="Trusted: TLC, Rat, Ieee.tla. Repaired: F10 F28 F70.",
    technique="TLA+ ladder model with abstract bounds checked by TLC + all-pairs TLC trace validation",
    design="I.3 C14"),
 "C16": dict(
    text="PanicDef classifies every (operation, argument edge class) cell of an explicit inventory (232 operations + 17 parser entry points) as "
         "must-panic / never-panic / either-but-prompt / excluded; TLC checks the classification total and consistent (31 k states) and emits one "
         "case per cell (25 k quick) plus string cells (grammar slots, 1 MB digit runs, non-ASCII, exponent limits); suspect cells run one call per "
         "forked process under a watchdog and a memory limit, in debug and release builds; the monitor requires the documented panic to occur "
         "promptly and forbids panics, hangs and aborts everywhere else.",
    note="Trusted: TLC, the process isolation of the worker (20 s budget, one re-run before a timeout is believed). Repaired: F12 F25 F16 F20 F22 "
         "F23 F29 F04(+b,c) C16.N1 C16.N2 C16.N7. Open findings: F11, F36, C16.N3, C16.N4, C16.N6.",
    technique="TLA+ panic classification checked by TLC + one generated case per cell executed in isolated processes + TLC trace validation",
    design="I.3 C16"),
 "C17": dict(
    text="ReprAlg/ReprLayer + HeapDef model the hand-managed storage (capacity policy, inline/heap switch, buffer reuse in clone_from, realloc, "
         "drop) and TLC checks Canonical and the heap invariants; TLC enumerates histories over 3 registers x 8 size classes x 105 operations "
         "(depth 4 quick, 5 thorough); the harness runs them under a recording global allocator with poisoned red zones and the monitor replays "
         "the allocator events against the heap model (dealloc/realloc only of live blocks with the recorded size, one block of capacity*8 bytes per "
         "heap value, no sharing, no leak when all registers are dropped) and checks the predicted capacity/length of every step; a subset of the "
         "same histories is executed under Miri, any Miri error is a violation.",
    note="Trusted: TLC, the recording allocator, Miri as the executor that observes undefined behaviour (out-of-bounds, use-after-free, invalid "
         "layout); the TLA+ side contributes the history space and the ownership/leak invariants. F01 repaired.",
    technique="TLA+ storage + heap model checked by TLC, allocator-trace validation by TLC, same histories under Miri",
    design="I.3 C17"),
 "C18": dict(
    text="SimplifyDef is the brute-force definition (all fractions up to a denominator bound) of simplest-in-interval, Farey neighbours, nearest, "
         "and the documented simplicity order; Simplify models the continued-fraction descent, the mediant walk and the float rounding intervals, "
         "model-checked for denominators <= 8 (14 thorough, 1 M states) together with the equivalence of the BigInt characterisation used by the "
         "monitor; all model states, a lifted f32/f64 lattice and small FBig values in six modes are replayed and decided by the characterisation.",
    note="Trusted: TLC, Rat. f32/f64 exhaustive only on the lattice. Repaired: F21 F22 F82 F83. Open findings: F80, F81.",
    technique="TLA+ brute-force definition + algorithm model checked by TLC + TLC trace validation",
    design="I.3 C18"),
 "C20": dict(
    text="LiteralDef defines the token grammar of ubig!/ibig!/fbig!/dbig!/rbig! and static_ variants with Status, Value and Precision; TLC "
         "enumerates derivations with magnitudes on both sides of 2^32, 2^64, 2^128 and beyond two words, and single-token mutations classified "
         "invalid; one generated crate prints the macro value and the run-time parse of the same text for every valid literal (through "
         "dashu_macros and the dashu facade) and a TLC monitor compares both with the definition; every invalid literal is compiled on its own and "
         "must fail to compile.",
    note="Trusted: TLC, rustc/cargo building the generated crate against /repo. Repaired: F27, C20.N2. Open finding: C20.N1 (zero float literals "
         "lose their precision).",
    technique="TLA+ literal grammar + TLC-generated programs compiled against the tree + TLC trace validation",
    design="I.3 C20"),
}
NA_REASON = "check not built yet in this round (planned, see DESIGN.md section 9)"

def main():
    checks = []
    for p in ALL:
        if p not in CLAIMED: continue
        c = CLAIMED[p]
        checks.append({
            "property_id": p,
            "quick_cmd": "./check %s --tier quick" % p,
            "thorough_cmd": "./check %s --tier thorough" % p,
            "evidence_file": "evidence/%s.json" % p,
            "replay_cmd_template": "./check %s --replay {path}" % p,
            "engine": "tlc",
            "level_claimed": {"category": "model_checking", "text": c["text"], "design_ref": c["design"]},
            "level_note": c["note"],
            "technique": c["technique"],
        })
    m = {
        "version": 1,
        "setup_cmd": "./setup.sh",
        "hooks": {
            "guard": "dashu_verif",
            "enable": "RUSTFLAGS --cfg dashu_verif (set by checks/framework.py through CARGO_ENCODED_RUSTFLAGS when building /verif/harness against /repo)",
            "baseline_off_cmd": "cd /repo && cargo nextest run --workspace --no-fail-fast --tool-config-file pb:/w/lib/nextest.toml --profile pb --test-threads 8 --offline",
            "source_commits": json.load(open(os.path.join(ROOT, "checks", "hook_commits.json"))),
            "add_only": True,
        },
        "engines": [{"name": "tlc", "path": "/opt/veriftools/tla/tla2tools.jar", "serves_properties": sorted(CLAIMED),
                     "kind_free_text": "TLC model checker: exhaustive small-scope checking of algorithm-layer specs, behaviour generation, trace validation"}],
        "checks": checks,
        "notes": "All verdicts are computed by TLC over TLA+ specifications under /verif/spec; /verif/harness only executes dashu and records what it returned.",
        "not_applicable": [{"property_id": p, "reason": NA_REASON} for p in ALL if p not in CLAIMED],
    }
    json.dump(m, open(os.path.join(ROOT, "MANIFEST.json"), "w"), indent=1)
    print("claimed:", sorted(CLAIMED))
main()
