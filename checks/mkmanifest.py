#!/usr/bin/env python3
"""Regenerates MANIFEST.json from the table below (single source of truth for what is claimed)."""
import json, os
ROOT = os.path.dirname(os.path.dirname(os.path.abspath(__file__)))
ALL = ["C%02d" % i for i in range(1, 21)]
CLAIMED = {
 "C01": dict(
    text="TLC enumerates the operation x type-pair x size-class x bit-pattern partition of + - * sqr cubic pow (Gen_C01), the "
         "real library executes every case in every call form, and a TLC trace monitor (Trace_C01) validates each recorded "
         "result against an independent big-integer arithmetic written in TLA+ (BigInt, itself model-checked against TLC's "
         "native integers); seeded random chains add unbalanced operands up to 70 words.",
    note="Trusted: TLC, the BigNat/BigInt TLA+ library (self-checked on every fresh setup), raw word accessors "
         "as_words/from_words used to move operands across the wire. Bounded: operands <= ~100 words exactly; Toom-3 sizes only in the thorough tier.",
    technique="TLA+ definition-layer spec + TLC-generated cases replayed into the code + TLC trace validation",
    design="5.C01"),
 "C02": dict(
    text="The sign fix-up macros of every division form are transcribed into TLA+ (IntDivAlg) and model-checked exhaustively for "
         "|a|,|b| <= 70 (160 thorough) against the truncating/Euclidean definitions; TLC constructs dividends a := q*b + r over divisor x "
         "quotient size classes (single word, double word incl. powers of two, both sides of the divide-and-conquer switch) and the "
         "library executes each in every form (/, %, div_rem, Euclidean, assign, primitives of all widths on either side, ConstDivisor, "
         "is_multiple_of); the trace monitor recomputes (q, r) with an independent Knuth-D on byte limbs and re-asserts a = q*b + r.",
    note="Trusted: TLC, BigNat!DivMod (guarded by the re-asserted identity, a flaw there is a tool error). Operands up to ~70 words. "
         "Known finding F11/C02 (negative IBig % unsigned primitive panics) is matched by call form and input class.",
    technique="TLA+ algorithm-layer model checked by TLC + TLC-generated cases replayed into the code + TLC trace validation",
    design="5.C02"),
 "C09": dict(
    text="The sign-case tables of & | ^ !, IBig::bit and the floor correction of IBig >> n (are_low_bits_nonzero in its double-word and "
         "slice variants) are transcribed into TLA+ over a 3-bit word (BitsAlg) and model-checked exhaustively (370 k states) against the "
         "bit-string definition, with the clamp constant of are_dword_low_bits_nonzero read from the source; TLC enumerates op x type pair x "
         "word count x pattern x bit position (Gen_C09), the library executes every case in every call form (owned/borrowed/assign, all "
         "primitive widths on either side, mixed UBig/IBig), and a TLC monitor validates each result with two's-complement windows on BigInt.",
    note="Trusted: TLC, BigInt window arithmetic (self-checked against native integers). Operands up to ~33 words in GEN, 20 words random.",
    technique="TLA+ algorithm-layer model checked by TLC + TLC-generated cases replayed into the code + TLC trace validation",
    design="5.C09"),
 "C15": dict(
    text="The call-form inventory (63 operation keys, 1903 forms: owned/borrowed operands, compound assignment, every primitive width on "
         "either side, trait-method forms, Euclidean forms, ConstDivisor, Context method vs FBig operator, Reduced operators) is a TLA+ "
         "constant (Inventory.tla); the drivers of C01/C02/C09 plus a float/rational/modular forms driver execute every form per operand "
         "tuple and a TLC monitor (Trace_C15) requires agreement of all forms (division: on every shared part) and membership in the "
         "inventory; clone/clone_from independence is a TLA+ register machine validated step by step against recorded register files.",
    note="Trusted: TLC; grouping of byte-identical outcomes in the harness. At least 90% of the inventory must be exercised per run "
         "(measured, else tool error). Known finding F11/C15 (unsigned-primitive-typed division results) matched by form and input class.",
    technique="TLA+ form inventory + register machine, TLC trace validation of recorded call forms",
    design="5.C15"),
 "C19": dict(
    text="The same TLC-generated and seeded cases of the C01/C02/C09 families are executed by the harness built in four configurations "
         "(64-bit debug, release without debug assertions, force_bits=32, no_std); every configuration's trace is validated by the family's "
         "definition monitor, and a TLC monitor over the merged traces (Trace_C19) requires identical outcomes per case. Serialization: the "
         "binary integer format is specified byte for byte in TLA+ (SerdeDef: LEB128 frame, little-endian magnitude, sign in the length "
         "parity) with no reference to a word size; serde_json/postcard round trips of UBig/IBig/FBig/DBig/RBig/Relaxed and decoding of "
         "mutated, zero-padded, unreduced, unnormalized and zero-denominator streams must give an error or a canonical value, never a panic.",
    note="Trusted: TLC, cargo/rustc producing the four builds from /repo's working tree. force_bits=16 does not build (known finding F26). "
         "log2 bounds per build are checked by C12.",
    technique="TLC trace validation of one case file under four build configurations + TLA+ wire-format definition",
    design="5.C19"),
}
NA_REASON = "check not built yet in this round (planned, see DESIGN.md section 9)"

def main():
    checks = []
    for p in ALL:
        if p not in CLAIMED: continue
        c = CLAIMED[p]
        checks.append({
            "property_id": p,
            "quick_cmd": "./check %s --tier quick" % p,
            "thorough_cmd": "./check %s --tier thorough" % p,
            "evidence_file": "evidence/%s.json" % p,
            "replay_cmd_template": "./check %s --replay {path}" % p,
            "engine": "tlc",
            "level_claimed": {"category": "model_checking", "text": c["text"], "design_ref": c["design"]},
            "level_note": c["note"],
            "technique": c["technique"],
        })
    m = {
        "version": 1,
        "setup_cmd": "./setup.sh",
        "hooks": {
            "guard": "dashu_verif",
            "enable": "RUSTFLAGS --cfg dashu_verif (set by checks/framework.py through CARGO_ENCODED_RUSTFLAGS when building /verif/harness against /repo)",
            "baseline_off_cmd": "cd /repo && cargo nextest run --workspace --no-fail-fast --tool-config-file pb:/w/lib/nextest.toml --profile pb --test-threads 8 --offline",
            "source_commits": json.load(open(os.path.join(ROOT, "checks", "hook_commits.json"))),
            "add_only": True,
        },
        "engines": [{"name": "tlc", "path": "/opt/veriftools/tla/tla2tools.jar", "serves_properties": sorted(CLAIMED),
                     "kind_free_text": "TLC model checker: exhaustive small-scope checking of algorithm-layer specs, behaviour generation, trace validation"}],
        "checks": checks,
        "notes": "All verdicts are computed by TLC over TLA+ specifications under /verif/spec; /verif/harness only executes dashu and records what it returned.",
        "not_applicable": [{"property_id": p, "reason": NA_REASON} for p in ALL if p not in CLAIMED],
    }
    json.dump(m, open(os.path.join(ROOT, "MANIFEST.json"), "w"), indent=1)
    print("claimed:", sorted(CLAIMED))
main()
