"""C19 Results do not depend on word size, build features or serialization medium."""
import json
import re
import os
import framework as fw

CFGS = ["std64", "release", "w32", "nostd"]
FAMS = {   # family -> (binary, definition monitor dir/module, generator, gen constants)
    "C01": ("c01", "Trace_C01", "Gen_C01", {"Classes": "{0, 1, 2, 3, 4, 5, 24, 25, 49}", "BigClasses": "{}", "K": 1}),
    "C02": ("c02", "Trace_C02", "Gen_C02", {"DivClasses": "{0, 1, 2, 3, 4, 33}", "QuoClasses": "{0, 1, 2, 3, 34}", "K": 3}),
    "C09": ("c09", "Trace_C09", "Gen_C09", {"Classes": "{0, 1, 2, 3, 4, 5}", "K": 2}),
}


# further families: seeded random drivers only (their generators are exercised by their own checks)
EXT = {   # family -> (binary, monitor module, TLA library dirs, driver arguments)
    "C03": ("c03", "Trace_C03", (), ["--max-prec", "24", "--max-gap", "40"]),
    "C04": ("c04", "Trace_C04", ("C01",), ["--max-words", "4"]),
    "C06": ("c06", "Trace_C06", (), ["--max-words", "6"]),
    "C07": ("c07", "Trace_C07", ("C01",), ["--max-words", "8"]),
    "C10": ("c10", "Trace_C10", ("C03",), ["--max-prec", "40", "--wide-frac", "60"]),   # fractions wider than a word of either size
    "C12": ("c12", "Trace_C12", (), ["--max-words", "6"]),
    "C13": ("c13", "Trace_C13", (), ["--max-words", "6"]),
    "C14": ("c14", "Trace_C14", ("C06",), ["--n-scale", "4"]),
    "C18": ("c18", "Trace_C18", (), ["--max-words", "2"]),
}


def par_tlc(ctx, jobs, threads):
    """jobs: (name, specdir, module, cfg, trace, libs); runs the monitors side by side and returns {name: TlcResult}"""
    from concurrent.futures import ThreadPoolExecutor
    jopts = "%s -XX:ParallelGCThreads=2 -Xmx4g -Dtlc2.tool.queue.IStateQueue=StateDeque" % fw.JAVA_BASE

    def run(j):
        name, specdir, module, cfg, trace, libs = j
        libpath = os.pathsep.join([fw.LIB] + [os.path.join(fw.SPEC, d) for d in libs])
        return name, fw.tlc(name, os.path.join(fw.SPEC, specdir), module, cfg, ctx.rundir, workers=1, timeout=2400,
                            env={"TRACE": trace, "JAVA_TOOL_OPTIONS": jopts + " -DTLA-Library=" + libpath}, deque=True, libs=libs)
    with ThreadPoolExecutor(max_workers=threads) as ex:
        return dict(ex.map(run, jobs))


def strip(e):
    """drops fields that legitimately differ between builds: sequence numbers, panic message texts, and the
    representation triple (capacity and length are counted in machine words)"""
    if isinstance(e, dict):
        return {k: strip(v) for k, v in e.items() if k not in ("seq", "msg", "src", "repr")}
    if isinstance(e, list):
        return [strip(x) for x in e]
    return e


def merge(ctx, name, traces):
    """zips the traces of all configurations line by line into xcfg events"""
    files = [open(t) for t in traces]
    out = ctx.path("trace-xcfg-%s.ndjson" % name)
    n = 0
    with open(out, "w") as f:
        while True:
            lines = [fh.readline() for fh in files]
            if not all(lines):
                if any(lines):
                    raise fw.ToolError("configurations produced traces of different length for " + name)
                break
            evs = [strip(json.loads(l)) for l in lines]
            f.write(json.dumps({"prop": "C19", "op": "xcfg", "fam": name, "cfgs": CFGS, "evs": evs}) + "\n")
            n += 1
    return out


def cover(e):
    cs = ["op:" + e["op"]]
    if e["op"] == "xcfg":
        cs.append("xcfg:" + e["fam"])
        if any("outs" in ev and any(g["out"]["k"] == "panic" for g in ev["outs"]) for ev in e["evs"]):
            cs.append("xcfg:panic-agreement")
    elif e["op"] == "serde":
        cs.append("serde:" + e["ty"])
    elif e["op"] in ("bytes", "frombytes"):
        if e["op"] == "frombytes" and e["bin"] and e["bin"][-1] == 0x80:
            cs.append("frombytes:top-byte-0x80")
    elif e["op"].startswith("decode"):
        cs.append("decode:%s:%s" % (e.get("note", "json"), e["out"]["k"]))
    return cs


def run(ctx):
    if ctx.replay:
        v = json.load(open(ctx.replay))
        p = ctx.path("replay.ndjson")
        # a C19 violation is replayed by re-running the check with the recorded seed (all configurations are rebuilt)
        ctx.seed = v.get("seed", ctx.seed)
    bins = {c: {b: fw.build(c, b) for b in ("c01", "c02", "c09", "c19")} for c in CFGS}
    s = str(ctx.seed)
    n = ctx.pick(250, 3000)
    for fam, (b, mon, gen, consts) in FAMS.items():
        consts = dict(consts)
        consts["Seed"] = ctx.seed % 1000
        cfg = fw.write_cfg(ctx.path(gen + ".cfg"), invariants=["Emit"], constants=consts)
        cases, _ = ctx.gen("gen-" + fam, fam, gen + ".tla", cfg, libs=("C01",))
        traces = []
        for c in CFGS:
            tr = ctx.drive(bins[c][b], ["--cases", cases, "--seed", s, "--n", str(n), "--max-words", "6"], "trace-%s-%s.ndjson" % (fam, c))
            # the definition of the family decides every configuration's answers
            ctx.monitor("def-%s-%s" % (fam, c), fam, mon + ".tla", mon + ".cfg", tr, cover=lambda e, c=c, fam=fam: ["def:%s:%s" % (fam, c)], timeout=3000)
            traces.append(tr)
        x = merge(ctx, fam, traces)
        ctx.monitor("xcfg-" + fam, "C19", "Trace_C19.tla", "Trace_C19.cfg", x, cover=cover, timeout=3000)
    # long decimal (and base-3 / base-36) strings around the lengths where the divide-and-conquer parser adds a level to its
    # power table: CHUNK_LEN * digits_per_word * 2^k, for the digits per word of both word sizes.  No oracle is needed here:
    # the four configurations must agree on the outcome (a debug-only assertion failure is a disagreement).
    import random
    rnd = random.Random(ctx.seed)
    chunk_len = 256
    try:
        chunk_len = int(re.search(r"const CHUNK_LEN: usize = (\d+);", open(os.path.join(os.environ.get("VERIF_REPO", "/repo"), "integer/src/parse/non_power_two.rs")).read()).group(1))
    except Exception:
        pass
    ctx.scope["parse_chunk_len_words"] = chunk_len
    lp = []
    digs = "0123456789abcdefghijklmnopqrstuvwxyz"
    for radix, dpws in ((10, (19, 9)), (3, (40, 20)), (36, (12, 6))):
        for dpw in dpws:
            for k in ((1, 2) if radix == 10 else (1,)):
                base = chunk_len * dpw << k
                for L in sorted({base - 1, base, base + 1, base + 2, base + (1 << k), base + (1 << k) + 1}):
                    if L > ctx.pick(21000, 40000) or (ctx.quick and radix != 10 and L != base + 1):
                        continue
                    txt = digs[1 + rnd.randrange(radix - 1)] + "".join(digs[rnd.randrange(radix)] for _ in range(L - 1))
                    lp.append({"op": "parse", "ty": "UI"[len(lp) % 2], "fn": "radix", "radix": radix, "text": list(txt.encode()), "chain": ""})
    plp = ctx.path("cases-longparse.ndjson")
    open(plp, "w").write("".join(json.dumps(c) + "\n" for c in lp))
    ltr = []
    for c in CFGS:
        ltr.append(ctx.drive(fw.build(c, "c07"), ["--cases", plp, "--n", "0"], "trace-longparse-%s.ndjson" % c))
    xl = merge(ctx, "longparse", ltr)
    ctx.monitor("xcfg-longparse", "C19", "Trace_C19.tla", "Trace_C19.cfg", xl, cover=cover, timeout=3000)
    # the other families: one seeded driver run per configuration, monitors side by side
    next_ = ctx.pick(120, 1200)
    jobs, fam_traces = [], {}
    # C13: the short-product shapes of its generator (their branch differs between builds with and without assertions)
    gcfg = fw.write_cfg(ctx.path("Gen_C13.cfg"), invariants=["Emit"], constants={"Seed": ctx.seed % 1000, "Big": "FALSE"})
    c13all, _ = ctx.gen("gen-C13", "C13", "Gen_C13.tla", gcfg, workers=4)
    c13 = ctx.path("cases-C13-short.ndjson")
    with open(c13, "w") as f:
        for line in open(c13all):
            if json.loads(line).get("shape", 0) >= 11:
                f.write(line)
    # C06: integer -> f32/f64 conversions of its generator (tie and sticky-bit sweeps cross word boundaries of either word size)
    gcfg = fw.write_cfg(ctx.path("Gen_C06.cfg"), invariants=["Emit"], constants={"Seed": ctx.seed % 1000, "Stride": ctx.pick(12, 2)})
    c06all, _ = ctx.gen("gen-C06", "C06", "Gen_C06.tla", gcfg, workers=4)
    c06 = ctx.path("cases-C06-int-to-float.ndjson")
    with open(c06, "w") as f:
        for line in open(c06all):
            cse = json.loads(line)
            if cse.get("op") == "to_f" and cse.get("x", {}).get("t") in ("U", "I"):
                f.write(line)
    extra_cases = {"C13": ["--cases", c13], "C06": ["--cases", c06]}
    for fam, (b, mon, libs, dargs) in EXT.items():
        fam_traces[fam] = []
        for c in CFGS:
            nn = next_
            if "--n-scale" in dargs:            # families whose event count grows faster than n
                nn = max(8, next_ // int(dargs[dargs.index("--n-scale") + 1]))
                dargs = []
            tr = ctx.drive(fw.build(c, b), extra_cases.get(fam, []) + ["--seed", s, "--n", str(nn)] + dargs, "trace-%s-%s.ndjson" % (fam, c))
            fam_traces[fam].append(tr)
            jobs.append(("def-%s-%s" % (fam, c), fam, mon + ".tla", mon + ".cfg", tr, libs))
    results = par_tlc(ctx, jobs, threads=8)
    orig = fw.tlc
    fw.tlc = lambda name, *a, **k: results[name]
    try:
        for name, fam, module, cfg, tr, libs in jobs:
            ctx.alt_prop = fam          # the family's own known findings explain the family's events
            ctx.monitor(name, fam, module, cfg, tr, libs=libs, cover=lambda e, name=name: [name.replace("def-", "def:").replace("-", ":", 1)])
    finally:
        fw.tlc = orig
        ctx.alt_prop = None
    # no cross-configuration diff for these families: several of their operations only promise a relation (log2 bounds,
    # Bezout pairs, tie choices), so two builds may legitimately differ; each build is decided by the definition monitor
    # serialization, algorithm layer: the binary visitors and serializers round-trip, are injective, and decode EVERY byte
    # string (over boundary byte values) to a canonical value
    cfg = fw.write_cfg(ctx.path("MC_SerdeAlg.cfg"), invariants=["RoundTrip", "AnyStreamCanonical"],
                       constants={"MaxV": ctx.pick(70000, 300000), "MaxLen": ctx.pick(4, 6), "ByteVals": "{0, 1, 127, 128, 255}"})
    ctx.mc("mc-serdealg", "C19", "SerdeAlg.tla", cfg, required_actions=["PickValue", "AddByte"])
    # serialization
    traces = []
    ns = ctx.pick(240, 2400)
    for c in CFGS:
        tr = ctx.drive(bins[c]["c19"], ["--seed", s, "--n", str(ns), "--max-words", "5"], "trace-serde-%s.ndjson" % c)
        ctx.monitor("serde-" + c, "C19", "Trace_C19.tla", "Trace_C19.cfg", tr, cover=cover, timeout=3000)
        traces.append(tr)
    x = merge(ctx, "serde", traces)
    ctx.monitor("xcfg-serde", "C19", "Trace_C19.tla", "Trace_C19.cfg", x, cover=cover, timeout=3000)
    # the 16-bit word configuration: does the library build at all?
    flags = "\x1f".join(["--cfg", 'force_bits="16"', "--check-cfg", 'cfg(force_bits, values("16","32","64"))', "--check-cfg", "cfg(dashu_verif)"])
    rc, out = fw.sh(["cargo", "check", "--offline", "--manifest-path", "/repo/integer/Cargo.toml"],
                    env={"CARGO_ENCODED_RUSTFLAGS": flags, "CARGO_TARGET_DIR": os.path.join(fw.HARNESS, "target-w16")}, timeout=900)
    # informational only: C19 names the 64- and 32-bit configurations, so a 16-bit build failure is not a violation
    ctx.scope["force_bits_16_builds"] = (rc == 0)
    ctx.scope.update({"configurations": CFGS, "events_per_family_per_configuration": n})
    return ctx.finish(
        rule="one event = one case (TLC-generated or seeded) executed by the harness built in one configuration and validated by the "
             "family's definition monitor, or one xcfg event comparing the four configurations' outcomes of the same case, or one "
             "serialization round trip / malformed-stream decode",
        explanation="configurations: 64-bit debug, 64-bit release without debug assertions, force_bits=32, no_std; families C01, C02, C09 "
                    "and the serde driver. The binary integer format is specified byte for byte (SerdeDef) without reference to a word size.",
        required_cover=["xcfg:C01", "xcfg:C02", "xcfg:C09", "xcfg:serde", "xcfg:panic-agreement", "serde:U", "serde:I", "serde:F2", "serde:F10",
                        "serde:R", "serde:X", "decode:zero-denominator:err", "decode:unreduced:ok", "decode:mutated:err", "decode:mutated:ok",
                        "decode:json:err", "decode:json:ok", "op:bytes", "op:frombytes", "frombytes:top-byte-0x80"]
                       + ["def:%s:%s" % (f, c) for f in list(FAMS) + list(EXT) for c in CFGS])


def selftest(ctx):
    b = fw.build("std64", "c19")
    tr = ctx.drive(b, ["--seed", "5", "--n", "12", "--max-words", "3"], "trace.ndjson")
    lines = open(tr).read().split("\n")
    idx = next(i for i, l in enumerate(lines) if l and json.loads(l)["op"] == "serde" and json.loads(l)["ty"] == "I" and json.loads(l)["bin"])
    e = json.loads(lines[idx])
    e["bin"].append(0)          # a stream with the wrong length parity / framing
    lines[idx] = json.dumps(e)
    open(tr, "w").write("\n".join(lines))
    v = ctx.monitor("selftest", "C19", "Trace_C19.tla", "Trace_C19.cfg", tr)
    got = [(x["i"], x["why"]) for x in v["bad"]]
    ok = got == [(idx + 1, "binary-format")]
    print("SELFTEST %s: corrupted stream in event %d -> monitor flagged %s" % ("PASS" if ok else "FAIL", idx + 1, got))
    return 0 if ok else 2
