"""C05 Equality, ordering and hashing follow the mathematical value in every type."""
import json
import math
import os
import re
import framework as fw

SPECDIR = "C05"
ACTIONS = ["FromWord", "FromDword", "FromStaticWords", "Ones", "BufAllocate", "BufAllocateExact", "BufFill",
           "BufEnsureCapacity", "BufDrop", "BufIntoBoxedSlice", "FromBuffer", "IntoBuffer", "Clone", "CloneFrom",
           "Neg", "WithSign", "Drop", "ForgetStatic"]


# ------------------------------------------------------------------ algorithm layer (shared with C17)
def fix_ones():
    """FixOnes of spec/C05/MC_ReprLayer.cfg: FALSE = Repr::ones as in the pinned tree (finding F01 open),
    TRUE = repaired code.  This one constant is what has to be flipped when the fix is committed."""
    if os.environ.get("VERIF_FIXONES") in ("TRUE", "FALSE"):   # development aid, like VERIF_REPO
        return os.environ["VERIF_FIXONES"] == "TRUE"
    txt = open(os.path.join(fw.SPEC, SPECDIR, "MC_ReprLayer.cfg")).read()
    m = re.search(r"FixOnes\s*=\s*(TRUE|FALSE)", txt)
    if not m:
        raise fw.ToolError("MC_ReprLayer.cfg: FixOnes not found")
    return m.group(1) == "TRUE"


def repr_cfg(ctx, name, invariants, fix, scope, constraint=None):
    consts = {"WB": 2, "NR": 2, "MaxWords": scope[0], "MaxCap": scope[1], "FixOnes": "TRUE" if fix else "FALSE"}
    return fw.write_cfg(ctx.path(name), invariants=invariants, constants=consts, constraint=constraint)


def mc_repr_layer(ctx, invariants_known, invariants_strict, strict_name):
    """Model checks ReprLayer (spec/C05) against the given invariants.  With F01 open: the run used as
    evidence has invariants `known \\/ Def`; a second run with the bare definition must reproduce F01
    (TLC re-finds it), and the repaired variant must satisfy the bare definition."""
    fix = fix_ones()
    scope = ctx.pick((4, 5), (5, 8))
    ctx.scope.update({"ReprLayer": {"WB": 2, "NR": 2, "MaxWords": scope[0], "MaxCap": scope[1], "FixOnes": fix}})
    workers = min(8, fw.NCPU)
    # vacuity: every named action is taken (coverage run in a small scope; -coverage slows TLC down a lot)
    cfg = repr_cfg(ctx, "MC_ReprLayer_cov.cfg", invariants_strict + ["BufferInv"], True, (3, 4))
    ctx.mc("mc-reprlayer-coverage", SPECDIR, "ReprLayer.tla", cfg, workers=workers, required_actions=ACTIONS, libs=(SPECDIR,))
    if fix:
        cfg = repr_cfg(ctx, "MC_ReprLayer.cfg", invariants_strict + ["BufferInv"], True, scope)
        ctx.mc("mc-reprlayer", SPECDIR, "ReprLayer.tla", cfg, workers=workers, libs=(SPECDIR,))
        return {"FixOnes": True}
    cfg = repr_cfg(ctx, "MC_ReprLayer.cfg", invariants_known + ["BufferInv"], False, scope, constraint="Untainted")
    ctx.mc("mc-reprlayer", SPECDIR, "ReprLayer.tla", cfg, workers=workers, libs=(SPECDIR,))
    # the bare definition on the model of the code as it is: TLC must reach Ones(2*WB) on the heap
    cfg = repr_cfg(ctx, "MC_ReprLayer_strict.cfg", invariants_strict, False, scope)
    r = ctx.mc("mc-reprlayer-strict", SPECDIR, "ReprLayer.tla", cfg, workers=2, expect_ok=False, libs=(SPECDIR,))
    refound = strict_name in r.invariant_violated and re.search(r"<Ones\(\d+\) line", r.out) is not None
    if not refound:
        raise fw.ToolError("ReprLayer with FixOnes = FALSE no longer violates %s: the model does not show F01 "
                           "(flip FixOnes in spec/C05/MC_ReprLayer.cfg if the fix was committed)" % strict_name)
    ctx.notes.append("TLC re-finds F01 in ReprLayer: %s violated after Ones(2*WB)" % strict_name)
    # the repaired comparison satisfies the bare definition (smaller scope in the quick tier)
    cfg = repr_cfg(ctx, "MC_ReprLayer_fixed.cfg", invariants_strict, True, ctx.pick((3, 4), scope))
    ctx.mc("mc-reprlayer-fixed", SPECDIR, "ReprLayer.tla", cfg, workers=workers, libs=(SPECDIR,))
    return {"FixOnes": False, "F01_refound_by_TLC": True}


# ------------------------------------------------------------------ cases
def I(n):
    s = 1 if n < 0 else 0
    n = abs(n)
    return {"s": s if n else 0, "m": list(n.to_bytes((n.bit_length() + 7) // 8, "little"))}


def F(sig, exp, base=2, mode="Zero", prec=None, inf=0):
    c = {"sig": I(sig), "exp": exp, "inf": inf, "base": base, "mode": mode}
    if prec is not None:
        c["prec"] = prec
    return c


def Qc(num, den, kind="R"):
    return {"num": I(num), "den": I(den), "kind": kind}


W = 1 << 64
# directed histories: classes that must be present whatever the seed
DIRECTED = [
    # the same integer through constructors, arithmetic, shifts, bit operations, conversions (inline/heap boundary)
    {"pool": "U", "nr": 6, "steps": [
        {"op": "const", "d": 1, "f": "words", "c": I(W * W - 1)}, {"op": "ones", "d": 2, "n": 127},
        {"op": "shl", "d": 2, "a": 2, "n": 1, "f": "a"}, {"op": "setbit", "d": 2, "a": 2, "n": 0},
        {"op": "const", "d": 3, "f": "le", "c": I(W * W)}, {"op": "const", "d": 4, "f": "prim", "c": I(1)},
        {"op": "sub", "d": 3, "a": 3, "b": 4, "f": "ar"}, {"op": "const", "d": 5, "f": "words", "c": I(W ** 3 - 1)},
        {"op": "shr", "d": 5, "a": 5, "n": 64, "f": "v"}, {"op": "clone", "d": 6, "a": 5}, {"op": "clonefrom", "d": 6, "a": 1},
        {"op": "const", "d": 4, "f": "words", "c": I(W ** 3)}, {"op": "clonefrom", "d": 4, "a": 3},
        {"op": "static", "d": 5, "n": 2, "b": 1, "f": "pos"}, {"op": "rebytes", "d": 6, "a": 5, "f": "be"}]},
    {"pool": "I", "nr": 5, "steps": [
        {"op": "const", "d": 1, "f": "parts", "c": I(-(W * W))}, {"op": "const", "d": 2, "f": "prim", "c": I(-1)},
        {"op": "shl", "d": 2, "a": 2, "n": 128, "f": "r"}, {"op": "const", "d": 3, "f": "negate", "c": I(W * W + 1)},
        {"op": "neg", "d": 3, "a": 3, "f": "v"}, {"op": "const", "d": 4, "f": "prim", "c": I(1)},
        {"op": "add", "d": 3, "a": 3, "b": 4, "f": "ap"}, {"op": "neg", "d": 3, "a": 3, "f": "r"},
        {"op": "static", "d": 5, "n": 3, "b": 0, "f": "neg"}, {"op": "clone", "d": 4, "a": 5}, {"op": "via", "d": 5, "a": 4},
        {"op": "const", "d": 4, "f": "parts", "c": I(0)}, {"op": "neg", "d": 4, "a": 4, "f": "v"}, {"op": "sub", "d": 5, "a": 1, "b": 2, "f": "rr"}]},
    # floats: equal values with different precision / rounding mode / history; infinities
    {"pool": "F", "nr": 6, "steps": [
        {"op": "const", "d": 1, "c": F(3, -1, 2, "Zero", 0)}, {"op": "const", "d": 2, "c": F(3, -1, 2, "HalfEven", 53)},
        {"op": "const", "d": 3, "c": F(48, -5, 2, "Up")}, {"op": "const", "d": 4, "c": F(1, 0, 2, "HalfAway", 10)},
        {"op": "const", "d": 5, "c": F(1, -1, 2, "HalfAway", 20)}, {"op": "add", "d": 4, "a": 4, "b": 5, "f": "rr"},
        {"op": "const", "d": 5, "c": F(0, 0, 2, "Zero", inf=1)}, {"op": "const", "d": 6, "c": F(0, 0, 2, "Up", inf=-1)},
        {"op": "withmode", "d": 1, "a": 1, "f": "Up"}, {"op": "withprec", "d": 2, "a": 2, "n": 2}, {"op": "shl", "d": 3, "a": 3, "n": 0, "f": "a"}]},
    {"pool": "F", "nr": 5, "steps": [
        {"op": "const", "d": 1, "c": F(125, -2, 10, "HalfAway")}, {"op": "const", "d": 2, "c": F(5, 0, 10, "Zero", 30)},
        {"op": "const", "d": 3, "c": F(4, 0, 10, "Zero", 30)}, {"op": "div", "d": 2, "a": 2, "b": 3, "f": "rr"},
        {"op": "const", "d": 3, "c": F(1250, -3, 10, "HalfEven", 0)}, {"op": "const", "d": 4, "c": F(0, 0, 10, "Zero", inf=1)},
        {"op": "const", "d": 5, "c": F(0, 0, 10, "HalfAway", inf=1)}, {"op": "neg", "d": 5, "a": 5, "f": "v"}, {"op": "neg", "d": 5, "a": 5, "f": "r"}]},
    # rationals: unreduced Relaxed against reduced, RBig against Relaxed, integers
    {"pool": "Q", "nr": 6, "steps": [
        {"op": "const", "d": 1, "c": Qc(2, 3, "R"), "f": "parts"}, {"op": "const", "d": 2, "c": Qc(6, 9, "X"), "f": "parts"},
        {"op": "const", "d": 3, "c": Qc(-10, -15, "R"), "f": "signed"}, {"op": "scale", "d": 4, "a": 1, "n": 255},
        {"op": "const", "d": 5, "c": Qc(1, 3, "X"), "f": "parts"}, {"op": "add", "d": 5, "a": 5, "b": 5, "f": "rr"},
        {"op": "canon", "d": 6, "a": 4}, {"op": "const", "d": 5, "c": Qc(0, 7, "X"), "f": "parts"}, {"op": "relax", "d": 6, "a": 6},
        {"op": "mul", "d": 4, "a": 4, "b": 2, "f": "vv"}, {"op": "const", "d": 1, "c": Qc(4 * W * W, 9 * W * W, "X"), "f": "parts"}]},
    # base changes between a base and its powers (16 <-> 2, 100 <-> 10): significands divisible by the new base but not
    # by the old one, exponents that are not multiples of the power
    {"pool": "F", "nr": 6, "steps": [
        {"op": "const", "d": 1, "c": F(2, -3, 16, "Zero")}, {"op": "withbase", "d": 2, "a": 1},
        {"op": "const", "d": 3, "c": F(1, -11, 2, "Zero")}, {"op": "const", "d": 4, "c": F(0x28, 1, 16, "HalfAway")},
        {"op": "withbase", "d": 4, "a": 4, "f": "bin"}, {"op": "const", "d": 5, "c": F(5, 7, 2, "Zero", 12)},
        {"op": "upbase", "d": 5, "a": 5}, {"op": "withbase", "d": 6, "a": 5}, {"op": "const", "d": 1, "c": F(6, 2, 16, "Up", 9)},
        {"op": "withbaseprec", "d": 1, "a": 1, "n": 40}, {"op": "const", "d": 2, "c": F(3, 9, 2, "Zero")}]},
    {"pool": "F", "nr": 5, "steps": [
        {"op": "const", "d": 1, "c": F(120, -1, 100, "HalfAway")}, {"op": "withbase", "d": 2, "a": 1, "f": "dec"},
        {"op": "const", "d": 3, "c": F(12, -1, 10, "HalfAway")}, {"op": "const", "d": 4, "c": F(7, 3, 10, "Zero", 8)},
        {"op": "upbase", "d": 4, "a": 4}, {"op": "withbase", "d": 5, "a": 4}, {"op": "const", "d": 1, "c": F(7000, 0, 10, "Zero")}]},
    # bases that are not square-free (16, 100): significands that are not divisible by the base but whose square / product is -
    # the result must come back normalised (4^2 = 1 * 16^1) or == and the hash disagree with cmp and with the same value
    # reached through a multiplication or a constant
    {"pool": "F", "nr": 6, "steps": [
        {"op": "const", "d": 1, "c": F(4, 0, 16, "Zero", 20)}, {"op": "sqr", "d": 2, "a": 1}, {"op": "mul", "d": 3, "a": 1, "b": 1, "f": "rr"},
        {"op": "const", "d": 4, "c": F(1, 1, 16, "Zero", 20)}, {"op": "const", "d": 5, "c": F(0x2c, -1, 16, "HalfAway", 30)},
        {"op": "sqr", "d": 6, "a": 5}, {"op": "mul", "d": 5, "a": 5, "b": 5, "f": "vv"}, {"op": "const", "d": 1, "c": F(8, 3, 16, "Up", 12)},
        {"op": "sqr", "d": 1, "a": 1}, {"op": "const", "d": 3, "c": F(4, 7, 16, "Up", 12)}]},
    {"pool": "F", "nr": 5, "steps": [
        {"op": "const", "d": 1, "c": F(10, 0, 100, "HalfAway", 10)}, {"op": "sqr", "d": 2, "a": 1}, {"op": "const", "d": 3, "c": F(1, 1, 100, "HalfAway", 10)},
        {"op": "mul", "d": 4, "a": 1, "b": 1, "f": "rv"}, {"op": "const", "d": 5, "c": F(50, -2, 100, "Zero", 6)}, {"op": "sqr", "d": 5, "a": 5},
        {"op": "const", "d": 1, "c": F(25, -3, 100, "Zero", 6)}]},
    # integral parts that are multiples of the base (120.5, -3000.25, 6.25 in binary) through trunc / split_at_point / floor / round
    # against the same integer built directly: every accessor must hand back a normalised number
    {"pool": "F", "nr": 6, "steps": [
        {"op": "const", "d": 1, "c": F(1205, -1, 10, "HalfAway", 8)}, {"op": "trunc", "d": 2, "a": 1}, {"op": "splitint", "d": 3, "a": 1},
        {"op": "const", "d": 4, "c": F(12, 1, 10, "HalfAway", 8)}, {"op": "floor", "d": 5, "a": 1}, {"op": "splitfract", "d": 6, "a": 1},
        {"op": "fract", "d": 4, "a": 1}, {"op": "const", "d": 1, "c": F(-300025, -2, 10, "Zero", 12)}, {"op": "splitint", "d": 2, "a": 1},
        {"op": "trunc", "d": 3, "a": 1}, {"op": "const", "d": 5, "c": F(-3, 3, 10, "Zero", 12)}]},
    {"pool": "F", "nr": 5, "steps": [
        {"op": "const", "d": 1, "c": F(25, -2, 2, "Zero", 10)}, {"op": "splitint", "d": 2, "a": 1}, {"op": "trunc", "d": 3, "a": 1},
        {"op": "const", "d": 4, "c": F(3, 1, 2, "Zero", 10)}, {"op": "round", "d": 5, "a": 1}, {"op": "const", "d": 1, "c": F(0x405, -1, 16, "HalfAway", 9)},
        {"op": "splitint", "d": 2, "a": 1}, {"op": "trunc", "d": 3, "a": 1}, {"op": "const", "d": 4, "c": F(4, 1, 16, "HalfAway", 9)}]},
    # rationals from floats: the denominator is a power of the base, the numerator shares factors with it
    {"pool": "Q", "nr": 6, "steps": [
        {"op": "fromfloat", "d": 1, "c": {"sig": I(5), "exp": -1, "base": 10}, "f": "R"}, {"op": "const", "d": 2, "c": Qc(1, 2, "R"), "f": "parts"},
        {"op": "fromfloat", "d": 3, "c": {"sig": I(125), "exp": -2, "base": 10}, "f": "Rrepr"}, {"op": "const", "d": 4, "c": Qc(5, 4, "X"), "f": "parts"},
        {"op": "fromfloat", "d": 5, "c": {"sig": I(-15), "exp": -2, "base": 10}, "f": "X"}, {"op": "fromfloat", "d": 6, "c": {"sig": I(12), "exp": -3, "base": 6}, "f": "R"},
        {"op": "const", "d": 4, "c": Qc(1, 18, "R"), "f": "parts"}, {"op": "fromfloat", "d": 5, "c": {"sig": I(6), "exp": -3, "base": 16}, "f": "R"},
        {"op": "fromfloat", "d": 6, "c": {"sig": I(3), "exp": -1, "base": 2}, "f": "Xrepr"}, {"op": "fromfloat", "d": 1, "c": {"sig": I(0), "exp": -4, "base": 10}, "f": "R"}]},
    # the const constructors: denominators that divide the numerator, common odd factors, powers of two
    {"pool": "Q", "nr": 6, "steps": [
        {"op": "const", "d": 1, "c": Qc(6, 3, "R"), "f": "pconst"}, {"op": "const", "d": 2, "c": Qc(2, 1, "R"), "f": "parts"},
        {"op": "const", "d": 3, "c": Qc(-10, 5, "R"), "f": "pconst"}, {"op": "const", "d": 4, "c": Qc(9, 6, "R"), "f": "pconst"},
        {"op": "const", "d": 5, "c": Qc(12, 8, "X"), "f": "pconst"}, {"op": "const", "d": 6, "c": Qc(W * 6, W * 3, "R"), "f": "pconst"},
        {"op": "const", "d": 2, "c": Qc(3, 2, "R"), "f": "parts"}, {"op": "const", "d": 5, "c": Qc(0, 9, "R"), "f": "pconst"},
        {"op": "const", "d": 1, "c": Qc(7, 7, "R"), "f": "pconst"}, {"op": "const", "d": 3, "c": Qc(W * W - 1, W - 1, "R"), "f": "pconst"}]},
]


def cover(e):
    cs = {"pool:" + e["pool"], "src:" + e["src"]}
    n, fin, pool = e["nr"], e["fin"], e["pool"]
    eqm = fin["eq"]
    pairs = [(i, j) for i in range(n) for j in range(n) if i < j and eqm[i][j] == 1]
    if pairs:
        cs.add("equal-pair")
    for s, o in zip(e["steps"], e["obs"]):
        cs.add("op:" + s["op"])
        if o["k"] == "panic":
            cs.add("panic")
    if pool in "UI":
        heap = [False] * n
        for s, o in zip(e["steps"], e["obs"]):
            h = o["t"][0]["heap"]
            d = s["d"] - 1
            if heap[d] and not h:
                cs.add("heap-to-inline")
            if h and not heap[d]:
                cs.add("inline-to-heap")
            heap[d] = h
            if "f" in s and s["op"] in ("add", "sub", "mul"):
                cs.add("form:" + s["f"])
        hs = [t[0]["heap"] for t in fin["t"]]
        if any(hs) and not all(hs):
            cs.add("inline-and-heap-in-pool")
        if any(hs[i] and hs[j] for i, j in pairs):
            cs.add("equal-pair-on-heap")
        if pairs:
            cs.add("equal-hash-compared")
    elif pool == "F":
        v = fin["v"]
        for i, j in pairs:
            if v[i]["prec"] != v[j]["prec"]:
                cs.add("float-equal-across-precision")
            if v[i]["mode"] != v[j]["mode"]:
                cs.add("float-equal-across-mode")
        if any(x["inf"] != 0 for x in v):
            cs.add("float-infinity")
        if any(x["inf"] != 0 for x in v) and any(x["inf"] == 0 for x in v):
            cs.add("float-infinity-vs-finite")
        if any(fin["cmp"][i][j] in (-1, 1) and v[i]["mode"] != v[j]["mode"] for i in range(n) for j in range(n)):
            cs.add("float-ordered-across-mode")
        if any(fin["cmp"][i][j] in (-1, 1) and v[i]["prec"] != v[j]["prec"] for i in range(n) for j in range(n)):
            cs.add("float-ordered-across-precision")
        if len({x["base"] for x in v}) > 1:
            cs.add("float-both-bases")
    else:
        v = fin["v"]
        red = [math.gcd(fw.intval(x["num"]), fw.intval(x["den"])) <= 1 for x in v]
        if any(x["kind"] == "X" and not r for x, r in zip(v, red)):
            cs.add("relaxed-unreduced")
        for i, j in pairs:
            if (v[i]["kind"] == "X" and not red[i]) or (v[j]["kind"] == "X" and not red[j]):
                cs.add("relaxed-unreduced-equal-pair")
            if v[i]["kind"] != v[j]["kind"]:
                cs.add("rbig-equals-relaxed")
            if v[i]["kind"] == v[j]["kind"] == "R":
                cs.add("equal-hash-compared-rbig")
    return sorted(cs)


def nontrivial(e):
    return len(e["steps"]) >= 2


def key(e):
    return json.dumps([e["pool"], e["steps"]], sort_keys=True)


def assume_fixed(ctx):
    """development aid (with VERIF_REPO pointing at a worktree that carries candidate fixes):
    VERIF_ASSUME_FIXED=F01,F41 treats these entries as fixed for this run; nothing is written"""
    ids = [x for x in os.environ.get("VERIF_ASSUME_FIXED", "").split(",") if x]
    if ids:
        ctx.known = [dict(k, status="fixed") if k["id"] in ids else k for k in ctx.known]
        fw.log("[dev] treated as fixed for this run: %s" % ids)


def witnesses(ctx, prop):
    return [k["witness"] for k in ctx.known if prop in k.get("properties", []) and isinstance(k.get("witness"), dict)
            and "steps" in k["witness"]]


def check_stale(ctx, prop):
    """every open finding of this property has its witness in the run: if it no longer fails the entry is stale"""
    hit = set()
    for ev, why, _src in ctx.violations:
        k = fw.match_known(ctx.prop, ev, why, ctx.known)
        if k:
            hit.add(k["id"])
    stale = [k["id"] for k in ctx.known if k.get("status") == "open" and prop in k.get("properties", [])
             and isinstance(k.get("witness"), dict) and "steps" in k["witness"] and k["id"] not in hit]
    if stale:
        raise fw.ToolError("open findings whose witness no longer fails (mark them fixed): %s" % stale)


def split_trace(ctx, trace, chunk):
    """large traces are validated in chunks (the monitor holds a whole chunk in memory).  Histories whose OBSERVATION
    (==, cmp, hash, formatting of the value a step produced) panicked carry no observations to validate: each is a violation
    by itself and is taken out of the trace here."""
    lines = open(trace).read().split("\n")
    lines = [l for l in lines if l]
    if any('"obsfault"' in l for l in lines):
        keep = []
        for l in lines:
            if '"obsfault"' in l:
                e = json.loads(l)
                ctx.violations.append(({"op": "observe", "pool": e.get("pool"), "nr": e.get("nr"), "steps": e.get("steps"), "msg": e["obsfault"][:300]},
                                       "observation-panicked", "native"))
            else:
                keep.append(l)
        lines = keep
        open(trace, "w").write("\n".join(lines) + ("\n" if lines else ""))
        if not lines:
            return []
    if len(lines) <= chunk:
        return [trace]
    out = []
    for i in range(0, len(lines), chunk):
        p = "%s.part%d" % (trace, i // chunk)
        open(p, "w").write("\n".join(lines[i:i + chunk]) + "\n")
        out.append(p)
    return out


def monitor_all(ctx, name, trace, totals, chunk=5000, timeout=1500):
    for n, part in enumerate(split_trace(ctx, trace, chunk)):
        v = ctx.monitor("%s-%d" % (name, n), SPECDIR, "Trace_C05.tla", "Trace_C05.cfg", part, nontrivial=nontrivial, key=key,
                        cover=cover, timeout=timeout)
        totals["drift"] += v.get("drift", 0)
        totals["noncanon"] += v.get("noncanon", 0)
        if part != trace:
            os.remove(part)


def run(ctx):
    drive = fw.build("std64", "c05")
    assume_fixed(ctx)
    totals = {"drift": 0, "noncanon": 0}
    if ctx.replay:
        case = json.load(open(ctx.replay))["case"]
        p = ctx.path("replay-case.ndjson")
        open(p, "w").write(json.dumps({k: case[k] for k in ("pool", "nr", "steps")}) + "\n")
        tr = ctx.drive(drive, ["--cases", p, "--n", "0"], "trace-replay.ndjson")
        ctx.monitor("replay", SPECDIR, "Trace_C05.tla", "Trace_C05.cfg", tr)
        return ctx.finish()
    # definition layer self-check, then the algorithm layer against ReprDef!Canonical
    ctx.mc("mc-orderdef", SPECDIR, "MC_OrderDef.tla", "MC_OrderDef.cfg", workers=2)
    mcinfo = mc_repr_layer(ctx, ["CanonicalOrKnown"], ["CanonicalStrict"], "CanonicalStrict")
    # spec -> impl: histories of depth <= 3 over the boundary constants (Gen_C05)
    s2, s3 = ctx.pick((16, 32), (1, 26))
    ctx.scope.update({"gen": {"depth": 3, "sample_level2": "1/%d" % s2, "sample_level3": "1/%d" % s3,
                              "full_space_histories": 8 * (49 ** 3) + 16 * (44 ** 3)}})
    cfg = fw.write_cfg(ctx.path("Gen_C05.cfg"), invariants=["Emit"],
                       constants={"Depth": 3, "S2": s2, "S3": s3, "Seed": ctx.seed % 1000, "Pools": '{"U", "I"}'})
    cases, ncases = ctx.gen("gen", SPECDIR, "Gen_C05.tla", cfg, timeout=1500)
    tr1 = ctx.drive(drive, ["--cases", cases, "--n", "0"], "trace-gen.ndjson")
    monitor_all(ctx, "mon-gen", tr1, totals)
    os.remove(tr1)
    # directed histories and the witnesses of the open findings
    p = ctx.path("cases-directed.ndjson")
    with open(p, "w") as f:
        for c in DIRECTED + witnesses(ctx, "C05"):
            f.write(json.dumps(c) + "\n")
    tr2 = ctx.drive(drive, ["--cases", p, "--n", "0"], "trace-directed.ndjson")
    monitor_all(ctx, "mon-directed", tr2, totals)
    # impl -> spec: seeded random histories, all four pools
    n_int, n_fq = ctx.pick((1600, 500), (20000, 5000))
    tr3 = ctx.drive(drive, ["--seed", str(ctx.seed), "--n", str(n_int), "--len", "14", "--max-words", "6", "--pools", "U,I"],
                    "trace-rnd-int.ndjson")
    monitor_all(ctx, "mon-rnd-int", tr3, totals)
    os.remove(tr3)
    tr4 = ctx.drive(drive, ["--seed", str(ctx.seed + 1), "--n", str(n_fq), "--len", "10", "--pools", "F,Q"], "trace-rnd-fq.ndjson")
    monitor_all(ctx, "mon-rnd-fq", tr4, totals, chunk=1500, timeout=3000)
    os.remove(tr4)
    ctx.drift = totals["drift"]
    check_stale(ctx, "C05")
    return ctx.finish(
        rule="one event = one history (sequence of producers over a pool of registers) with ==, cmp, reverse cmp and hash "
             "of the destination against every register and its rebuilt twins after every step, all pairs and triples at "
             "the end; distinct = distinct (pool, steps); non-trivial = at least two steps",
        explanation="OrderDef (== iff values equal, cmp = order of values, cmp Equal iff ==, equal => equal hash, order axioms) "
                    "evaluated by the PoolMachine monitor on BigInt/Rat/float values; ReprLayer (2-bit word) model checked "
                    "against ReprDef!Canonical; Gen_C05 enumerates depth<=3 histories over the boundary constants "
                    "(sampled at levels 2/3 as recorded in scope); UBig, IBig, FBig base 2 and 10 with four rounding modes "
                    "and infinities, RBig and Relaxed incl. unreduced fractions.",
        extra={"algorithm_layer": mcinfo, "value_drift_events": totals["drift"], "noncanonical_triples_seen": totals["noncanon"],
               "notes": ctx.notes},
        required_cover=["pool:U", "pool:I", "pool:F", "pool:Q", "src:gen", "src:rnd", "equal-pair", "equal-pair-on-heap",
                        "inline-and-heap-in-pool", "heap-to-inline", "inline-to-heap", "panic", "op:clonefrom", "op:ones",
                        "op:setbit", "op:clearbit", "op:neg", "op:shl", "op:shr", "op:static", "form:ap", "form:ar", "form:vv",
                        "float-equal-across-precision", "float-equal-across-mode", "float-infinity-vs-finite",
                        "float-ordered-across-mode", "float-ordered-across-precision", "float-both-bases",
                        "relaxed-unreduced-equal-pair", "rbig-equals-relaxed", "equal-hash-compared-rbig"])


def selftest(ctx):
    """binding demonstration: corrupt one recorded observation, the monitor must flag exactly that history"""
    drive = fw.build("std64", "c05")
    tr = ctx.drive(drive, ["--seed", "7", "--n", "48", "--len", "10", "--max-words", "5"], "trace.ndjson")
    base = ctx.monitor("selftest-base", SPECDIR, "Trace_C05.tla", "Trace_C05.cfg", tr)
    base_bad = {b["i"] for b in base["bad"]}
    lines = [l for l in open(tr).read().split("\n") if l]

    def pick(pred):
        for i, l in enumerate(lines, 1):
            e = json.loads(l)
            if i not in base_bad and not any(s["op"] == "ones" and s.get("n") == 128 for s in e["steps"]) and pred(e):
                return i, e
        raise fw.ToolError("selftest: no suitable event")

    def flip_cmp(e):
        o = e["obs"][-1]
        d = e["steps"][-1]["d"] - 1
        r = [j for j in range(e["nr"]) if j != d][0]
        o["cmp"][r] = 1 if o["cmp"][r] <= 0 else -1

    def flip_eq(e):
        o = e["obs"][0]
        d = e["steps"][0]["d"] - 1
        r = [j for j in range(e["nr"]) if j != d][0]
        o["eq"][r] = 1 - o["eq"][r]
        o["cmp"][r] = 0 if o["eq"][r] == 1 else 1
        o["qe"][r] = o["eq"][r]
        o["pmc"][r] = -o["cmp"][r]

    def twin_hash(e):
        h = e["obs"][0]["tw"][0]["h"]
        h[0] = (h[0] + 1) % 256

    def fin_value(e):
        m = e["fin"]["v"][0]["m"]
        if m:
            m[0] = (m[0] + 1) % 256 or 1
        else:
            m.append(1)

    attempt_any = []

    def attempt2(label, pred, mutate):
        i, e = pick(pred)
        mutate(e)
        mut = list(lines)
        mut[i - 1] = json.dumps(e)
        p = ctx.path("trace-%s.ndjson" % label)
        open(p, "w").write("\n".join(mut) + "\n")
        v = ctx.monitor("selftest-" + label, SPECDIR, "Trace_C05.tla", "Trace_C05.cfg", p)
        new = [(b["i"], b["why"]) for b in v["bad"] if b["i"] not in base_bad]
        ok = len(new) == 1 and new[0][0] == i
        attempt_any.append(ok)
        print("SELFTEST %s: %s in history %d -> monitor flagged %s" % ("PASS" if ok else "FAIL", label, i, new))

    attempt2("cmp-flipped", lambda e: e["pool"] in "UI", flip_cmp)
    attempt2("eq-and-cmp-flipped-consistently", lambda e: e["pool"] in "UIQ", flip_eq)
    attempt2("twin-hash-changed", lambda e: e["pool"] in "UI", twin_hash)
    attempt2("final-value-changed", lambda e: e["pool"] in "UI", fin_value)
    attempt2("float-cmp-flipped", lambda e: e["pool"] == "F" and e["obs"][-1]["k"] == "ok" and
             any(c in (-1, 0, 1) for j, c in enumerate(e["obs"][-1]["cmp"]) if j != e["steps"][-1]["d"] - 1),
             lambda e: e["obs"][-1]["cmp"].__setitem__(
                 [j for j, c in enumerate(e["obs"][-1]["cmp"]) if c in (-1, 0, 1) and j != e["steps"][-1]["d"] - 1][0],
                 3))
    ok = all(attempt_any) and len(attempt_any) == 5
    print("SELFTEST C05 %s" % ("PASS" if ok else "FAIL"))
    return 0 if ok else 2
