"""C20 Literal macros build exactly the number that was written."""
import concurrent.futures
import json
import os
import shutil
import framework as fw

SPECDIR = "C20"
REPO = os.environ.get("VERIF_REPO") or "/repo"
# cargo target directory of the generated crates, reused across runs (a scratch tree gets its own)
TARGET = os.path.join(fw.HARNESS, "target-macrogen") if REPO == "/repo" else \
    os.path.join("/tmp", "verif-target-macrogen-%s" % __import__("hashlib").md5(REPO.encode()).hexdigest()[:8])

RT_HELPERS = r'''
#![allow(unused_imports, unused_variables, dead_code, clippy::all)]
use std::io::Write;
use std::str::FromStr;
use dashu_base::Sign;
use dashu_float::{round::mode::{HalfAway, Zero}, DBig, FBig};
use dashu_int::{IBig, UBig, Word};
use dashu_ratio::{RBig, Relaxed};
type FBin = FBig<Zero, 2>;

fn bytes(words: &[Word]) -> String {
    let mut b: Vec<u8> = Vec::new();
    for w in words { b.extend_from_slice(&w.to_le_bytes()); }
    while b.last() == Some(&0) { b.pop(); }
    format!("[{}]", b.iter().map(|x| x.to_string()).collect::<Vec<_>>().join(","))
}
fn ju(x: &UBig) -> String { format!("{{\"s\":0,\"m\":{}}}", bytes(x.as_words())) }
fn ji(x: &IBig) -> String {
    let (s, w) = x.as_sign_words();
    format!("{{\"s\":{},\"m\":{}}}", if s == Sign::Negative { 1 } else { 0 }, bytes(w))
}
fn jf<R: dashu_float::round::Round, const B: Word>(x: &FBig<R, B>) -> String {
    format!("{{\"sig\":{},\"exp\":{},\"prec\":{}}}", ji(x.repr().significand()), x.repr().exponent(), x.precision())
}
fn jr(n: &IBig, d: &UBig) -> String { format!("{{\"num\":{},\"den\":{}}}", ji(n), bytes(d.as_words())) }
fn jerr<E: std::fmt::Debug>(e: E) -> String { format!("{{\"err\":\"{:?}\"}}", e) }
fn emit(out: &mut dyn Write, id: u32, via: &str, mv: String, rv: String) {
    writeln!(out, "{{\"id\":{},\"via\":\"{}\",\"mv\":{},\"rv\":{}}}", id, via, mv, rv).unwrap();
}
'''


def text(toks):
    out = ""
    for t in toks:
        s = bytes(t["s"]).decode()
        out += (" " + s + " ") if t["k"] == "base" else s
    return out.strip()


def rust_str(s):
    return '"' + s.replace("\\", "\\\\").replace('"', '\\"') + '"'


def stmt(case, via):
    """one block: the macro value and the run-time parse of the same text, both printed"""
    m, cid = case["macro"], case["id"]
    lit = text(case["toks"])
    rt = rust_str(bytes(case["rt"]).decode())
    radix = case["radix"]
    path = "dashu_macros" if via == "direct" else "dashu"
    inv = "%s::%s!(%s)" % (path, m, lit)
    base = m.replace("static_", "")
    deref = "" if m.startswith("static_") else "&"
    if base == "ubig":
        run = "UBig::from_str_radix(%s, %d)" % (rt, radix) if radix else "UBig::from_str_with_radix_prefix(%s).map(|v| v.0)" % rt
        return "{ let m = %s; let r = %s; emit(out, %d, %s, ju(%sm), r.map(|v| ju(&v)).unwrap_or_else(jerr)); }" % (
            inv, run, cid, rust_str(via), deref)
    if base == "ibig":
        run = "IBig::from_str_radix(%s, %d)" % (rt, radix) if radix else "IBig::from_str_with_radix_prefix(%s).map(|v| v.0)" % rt
        return "{ let m = %s; let r = %s; emit(out, %d, %s, ji(%sm), r.map(|v| ji(&v)).unwrap_or_else(jerr)); }" % (
            inv, run, cid, rust_str(via), deref)
    if base == "fbig":
        return "{ let m = %s; let r = FBin::from_str(%s); emit(out, %d, %s, jf(%sm), r.map(|v| jf(&v)).unwrap_or_else(jerr)); }" % (
            inv, rt, cid, rust_str(via), deref)
    if base == "dbig":
        return "{ let m = %s; let r = DBig::from_str(%s); emit(out, %d, %s, jf(%sm), r.map(|v| jf(&v)).unwrap_or_else(jerr)); }" % (
            inv, rt, cid, rust_str(via), deref)
    relaxed = any(t["k"] == "tilde" for t in case["toks"])
    ty = "Relaxed" if relaxed else "RBig"
    run = "%s::from_str_radix(%s, %d)" % (ty, rt, radix) if radix else "%s::from_str_with_radix_prefix(%s).map(|v| v.0)" % (ty, rt)
    return ("{ let m = %s; let r = %s; emit(out, %d, %s, jr(m.numerator(), m.denominator()), "
            "r.map(|v| jr(v.numerator(), v.denominator())).unwrap_or_else(jerr)); }") % (inv, run, cid, rust_str(via))


def write_crate(d, valid):
    os.makedirs(os.path.join(d, "src"), exist_ok=True)
    os.makedirs(os.path.join(d, ".cargo"), exist_ok=True)
    open(os.path.join(d, "Cargo.toml"), "w").write('''[package]
name = "dashu-verif-macrogen"
version = "0.0.0"
edition = "2021"
publish = false

[workspace]

[dependencies]
dashu = { path = "%(r)s" }
dashu-base = { path = "%(r)s/base" }
dashu-int = { path = "%(r)s/integer" }
dashu-float = { path = "%(r)s/float" }
dashu-ratio = { path = "%(r)s/rational" }
dashu-macros = { path = "%(r)s/macros" }

[profile.dev]
opt-level = 0
debug = false
incremental = false
''' % {"r": REPO})
    open(os.path.join(d, ".cargo", "config.toml"), "w").write('[net]\noffline = true\n[build]\ntarget-dir = "%s"\n' % TARGET)
    # the lock file committed with the harness (a copy of the repository's, which is not tracked by git there)
    lock = os.path.join(REPO, "Cargo.lock")
    shutil.copy(lock if os.path.exists(lock) else os.path.join(fw.HARNESS, "Cargo.lock"), os.path.join(d, "Cargo.lock"))
    parts, body = [], []
    for i, c in enumerate(valid):
        body.append("    " + stmt(c, "direct"))
        body.append("    " + stmt(c, "facade"))
        if len(body) >= 120 or i == len(valid) - 1:
            parts.append("fn part_%d(out: &mut dyn Write) {\n%s\n}\n" % (len(parts), "\n".join(body)))
            body = []
    main = "fn main() {\n    let stdout = std::io::stdout();\n    let mut lock = std::io::BufWriter::new(stdout.lock());\n" + \
           "".join("    part_%d(&mut lock);\n" % i for i in range(len(parts))) + "    lock.flush().unwrap();\n}\n"
    open(os.path.join(d, "src", "main.rs"), "w").write(RT_HELPERS + "\n".join(parts) + main)


def build_crate(d, w32=False):
    """cargo build of the generated crate; returns (binary path, {crate name: artifact file}, deps dir).
    w32: build everything with 32-bit machine words (--cfg force_bits="32"), in a target directory of its own"""
    env = {"CARGO_ENCODED_RUSTFLAGS": "", "RUSTFLAGS": "-Awarnings"}
    if w32:
        env = {"CARGO_ENCODED_RUSTFLAGS": "\x1f".join(["-Awarnings", "--cfg", 'force_bits="32"']), "CARGO_TARGET_DIR": TARGET + "-w32"}
    rc, out = fw.sh(["cargo", "build", "--offline", "--message-format=json"], cwd=d, timeout=3000, env=env)
    arts, exe, errors = {}, None, []
    for line in out.splitlines():
        if not line.startswith("{"):
            continue
        try:
            m = json.loads(line)
        except ValueError:
            continue
        if m.get("reason") == "compiler-artifact":
            name = m["target"]["name"].replace("-", "_")
            files = [f for f in m["filenames"] if f.endswith((".rlib", ".so"))]
            if files:
                arts[name] = files[0]
            if m.get("executable"):
                exe = m["executable"]
        elif m.get("reason") == "compiler-message" and m["message"].get("level") == "error":
            errors.append(m["message"].get("rendered", "")[:600])
    if rc != 0 or not exe:
        raise fw.ToolError("generated crate of valid literals does not build:\n" + "\n".join(errors[:5]) + out[-800:])
    return exe, arts


def compile_one(args):
    workdir, arts, idx, macro, lit = args
    src = os.path.join(workdir, "bad_%d.rs" % idx)
    open(src, "w").write("#![allow(warnings)]\npub fn f() { let _ = dashu_macros::%s!(%s); }\n" % (macro, lit))
    deps = os.path.dirname(arts["dashu_macros"])
    cmd = ["rustc", "--edition", "2021", "--crate-type", "lib", "--emit", "metadata", "--out-dir", os.path.join(workdir, "o%d" % (idx % 16)),
           "--crate-name", "bad_%d" % idx, "-L", "dependency=" + deps, "-Awarnings"]
    for n in ("dashu_macros", "dashu_base", "dashu_int", "dashu_float", "dashu_ratio"):
        cmd += ["--extern", "%s=%s" % (n, arts[n])]
    rc, out = fw.sh(cmd + [src], timeout=300)
    return idx, rc == 0, out[-400:]


def compile_invalid(ctx, arts, invalid):
    workdir = ctx.path("invalid")
    os.makedirs(workdir, exist_ok=True)
    for i in range(16):
        os.makedirs(os.path.join(workdir, "o%d" % i), exist_ok=True)
    # control: the same scaffolding accepts a valid literal and rejects an obviously broken one
    _, ok1, o1 = compile_one((workdir, arts, 900001, "ubig", "123"))
    _, ok2, o2 = compile_one((workdir, arts, 900002, "ubig", "12 34"))
    if not ok1 or ok2:
        raise fw.ToolError("invalid-literal scaffolding is broken (control valid=%s, control invalid=%s)\n%s\n%s" % (ok1, ok2, o1, o2))
    jobs = [(workdir, arts, c["id"], c["macro"], text(c["toks"])) for c in invalid]
    res = {}
    with concurrent.futures.ThreadPoolExecutor(max_workers=min(8, fw.NCPU)) as ex:
        for idx, ok, out in ex.map(compile_one, jobs):
            res[idx] = (ok, out)
    return res


def cover(e):
    cs = ["kind:" + e["kind"], "macro:" + e["macro"], "fam:" + e.get("fam", "?")]
    kinds = [t["k"] for t in e["toks"]]
    for k in ("sign", "tilde", "uscore", "prefix", "point", "expmark", "slash", "base"):
        if k in kinds:
            cs.append("tok:" + k)
    if any(95 in t["s"] for t in e["toks"] if t["k"] == "digits"):
        cs.append("tok:separator")
    if e["kind"] == "valid":
        cs.append("via:" + e["via"])
        mv = e["mv"]
        mag = mv if "m" in mv else mv.get("sig") or mv.get("num")
        nb = len(mag["m"])
        cs.append("mag:" + ("zero" if nb == 0 else "le32bit" if nb <= 4 else "le64bit" if nb <= 8 else "le128bit" if nb <= 16 else "multiword"))
        if "den" in mv and len(mv["den"]) > 4:
            cs.append("den:beyond32bit")
        if "prec" in mv:
            cs.append("float:precision")
        if "err" in e["rv"]:
            cs.append("runtime:err")
    else:
        cs.append("compiled:%s" % e["compiled"])
    return cs


FAM_KEEP = {"int": 1, "bin": 5, "hex": 8, "dec": 7, "rat": 3}


def _t(k, s):
    return {"k": k, "s": list(s.encode())}


# hand-written literals outside the grammar, one or two per macro family: part of every run (the spec still decides that
# they are invalid; a case LiteralDef does not classify as invalid is reported as malformed)
FIXED_INVALID = [
    {"kind": "invalid", "macro": "ubig", "fam": "int", "par": [], "toks": [_t("sign", "-"), _t("digits", "5")]},
    {"kind": "invalid", "macro": "ibig", "fam": "int", "par": [], "toks": [_t("digits", "12z")]},
    {"kind": "invalid", "macro": "static_ubig", "fam": "int", "par": [], "toks": [_t("digits", "5"), _t("base", "base"), _t("radix", "37")]},
    {"kind": "invalid", "macro": "static_ibig", "fam": "int", "par": [], "toks": [_t("prefix", "0x"), _t("digits", "fg")]},
    {"kind": "invalid", "macro": "fbig", "fam": "bin", "par": [], "toks": [_t("digits", "12"), _t("point", "."), _t("digits", "3")]},
    {"kind": "invalid", "macro": "static_fbig", "fam": "bin", "par": [], "toks": [_t("digits", "1"), _t("point", "."), _t("digits", "01"), _t("expmark", "p"), _t("digits", "3")]},
    {"kind": "invalid", "macro": "dbig", "fam": "dec", "par": [], "toks": [_t("prefix", "0x"), _t("digits", "12")]},
    {"kind": "invalid", "macro": "static_dbig", "fam": "dec", "par": [], "toks": [_t("digits", "1"), _t("point", "."), _t("digits", "2"), _t("point", "."), _t("digits", "3")]},
    {"kind": "invalid", "macro": "rbig", "fam": "rat", "par": [], "toks": [_t("digits", "1"), _t("slash", "/"), _t("digits", "0")]},
    {"kind": "invalid", "macro": "static_rbig", "fam": "rat", "par": [], "toks": [_t("prefix", "0x"), _t("digits", "1"), _t("slash", "/"), _t("prefix", "0b"), _t("digits", "1")]},
    {"kind": "invalid", "macro": "rbig", "fam": "rat", "par": [], "toks": [_t("digits", "1"), _t("slash", "/"), _t("slash", "/"), _t("digits", "2")]},
    {"kind": "invalid", "macro": "ibig", "fam": "int", "par": [], "toks": [_t("sign", "-"), _t("sign", "-"), _t("digits", "5")]},
    {"kind": "invalid", "macro": "static_rbig", "fam": "rat", "par": [], "toks": [_t("tilde", "~"), _t("tilde", "~"), _t("digits", "1"), _t("slash", "/"), _t("digits", "2")]},
    {"kind": "invalid", "macro": "rbig", "fam": "rat", "par": [], "toks": [_t("digits", "1"), _t("digits", " 2")]},
    {"kind": "invalid", "macro": "rbig", "fam": "rat", "par": [], "toks": [_t("digits", "1"), _t("sign", "-"), _t("digits", "2")]},
    {"kind": "invalid", "macro": "static_rbig", "fam": "rat", "par": [], "toks": [_t("digits", "22"), _t("slash", "/")]},
    # a minus sign on an unsigned macro, on every construction path (const expression, heap, static array)
    {"kind": "invalid", "macro": "ubig", "fam": "int", "par": [], "toks": [_t("sign", "-"), _t("prefix", "0x"), _t("digits", "1_0000_0000")]},
    {"kind": "invalid", "macro": "ubig", "fam": "int", "par": [], "toks": [_t("sign", "-"), _t("digits", "340282366920938463463374607431768211456")]},
    {"kind": "invalid", "macro": "static_ubig", "fam": "int", "par": [], "toks": [_t("sign", "-"), _t("digits", "5")]},
    {"kind": "invalid", "macro": "static_ubig", "fam": "int", "par": [], "toks": [_t("sign", "-"), _t("digits", "18446744073709551617")]},
    {"kind": "invalid", "macro": "ubig", "fam": "int", "par": [], "toks": [_t("sign", "-"), _t("digits", "zzzzzzzzzz"), _t("base", "base"), _t("radix", "36")]},
    # radix prefixes that disagree between numerator and denominator
    {"kind": "invalid", "macro": "rbig", "fam": "rat", "par": [], "toks": [_t("prefix", "0x"), _t("digits", "10"), _t("slash", "/"), _t("prefix", "0b"), _t("digits", "11")]},
    {"kind": "invalid", "macro": "rbig", "fam": "rat", "par": [], "toks": [_t("digits", "10"), _t("slash", "/"), _t("prefix", "0x"), _t("digits", "10")]},
    {"kind": "invalid", "macro": "static_rbig", "fam": "rat", "par": [], "toks": [_t("digits", "17"), _t("slash", "/"), _t("prefix", "0o"), _t("digits", "21")]},
]


def gen_cases(ctx, keep, keepbad, name="gen"):
    cfg = fw.write_cfg(ctx.path("Gen_C20-%s.cfg" % name), invariants=["EmitValid", "EmitBad"],
                       constants={"Seed": ctx.seed % 100000, "Keep": keep, "KeepBad": keepbad})
    path, n = ctx.gen(name, SPECDIR, "Gen_C20.tla", cfg, workers=4, timeout=1800)
    cases = [json.loads(l) for l in open(path)]
    return cases


def run_cases(ctx, cases):
    valid = [c for c in cases if c["kind"] == "valid"]
    invalid = [c for c in cases if c["kind"] == "invalid"]
    d = ctx.path("macrogen")
    write_crate(d, valid)
    exe, arts = build_crate(d)
    rc, out = fw.sh([exe], timeout=600)
    if rc != 0:
        raise fw.ToolError("generated program failed rc=%d: %s" % (rc, out[-1500:]))
    byid = {c["id"]: c for c in valid}
    events = []
    for line in out.splitlines():
        if not line.startswith("{"):
            continue
        o = json.loads(line)
        e = dict(byid[o["id"]])
        e.update({"via": o["via"], "mv": o["mv"], "rv": o["rv"]})
        events.append(e)
    if len(events) != 2 * len(valid):
        raise fw.ToolError("generated program printed %d events for %d literals" % (len(events), len(valid)))
    # the same program with 32-bit machine words: the static / const paths of the macros select their data by word size
    try:
        exe32, _ = build_crate(d, w32=True)
        rc, out = fw.sh([exe32], timeout=600)
        if rc != 0:
            raise fw.ToolError("generated program (32-bit words) failed rc=%d: %s" % (rc, out[-1500:]))
    except fw.ToolError as ex:
        # the 64-bit build of the very same program succeeded: literals that are valid do not compile (or abort) with
        # 32-bit words.  That is a verdict about the macros, not a tool problem.
        ctx.violations.append(({"op": "build-32-bit-words", "macro": "-", "error": str(ex)[:1500]},
                               "valid-literal-does-not-compile-with-32-bit-words", "build"))
        out = ""
    n32 = 0
    for line in out.splitlines():
        if line.startswith("{"):
            o = json.loads(line)
            e = dict(byid[o["id"]])
            e.update({"via": o["via"], "mv": o["mv"], "rv": o["rv"], "words": 32})
            events.append(e)
            n32 += 1
    if out and n32 != 2 * len(valid):
        raise fw.ToolError("generated program (32-bit words) printed %d events for %d literals" % (n32, len(valid)))
    res = compile_invalid(ctx, arts, invalid) if invalid else {}
    for c in invalid:
        e = dict(c)
        e["compiled"] = res[c["id"]][0]
        e["rustc"] = res[c["id"]][1][-200:]
        events.append(e)
    tr = ctx.path("trace.ndjson")
    with open(tr, "w") as f:
        for e in events:
            f.write(json.dumps(e) + "\n")
    return tr, len(valid), len(invalid)


def key(e):
    return json.dumps([e["macro"], e.get("via"), e["toks"]], sort_keys=True)


def _witnesses(ctx):
    p = os.path.join(fw.ROOT, "findings", "C20.json")
    own = {e["id"] for e in json.load(open(p))} if os.path.exists(p) else set()
    return [(k["id"], dict(k["witness"])) for k in ctx.known
            if k["id"] in own and k.get("status") == "open" and "C20" in k.get("properties", []) and k.get("witness")]


def run(ctx):
    if ctx.replay:
        case = json.load(open(ctx.replay))["case"]
        case = {k: v for k, v in case.items() if k not in ("mv", "rv", "via", "compiled", "rustc", "seq")}
        case["id"] = 1
        tr, _, _ = run_cases(ctx, [case])
        ctx.monitor("replay", SPECDIR, "Trace_C20.tla", "Trace_C20.cfg", tr)
        return ctx.finish()
    keep = ctx.pick(30, 4)
    keepbad = ctx.pick(12, 6)
    ctx.scope.update({"keep_one_in": keep, "mutations_keep_one_in": keepbad, "family_keep_factors": FAM_KEEP})
    cases = gen_cases(ctx, keep, keepbad)
    wit = _witnesses(ctx)
    nid = max(c["id"] for c in cases)
    for w in [dict(c) for c in FIXED_INVALID] + [w for _, w in wit]:
        nid += 1
        w["id"] = nid
        cases.append(w)
    maxbad = ctx.pick(60, 450)
    bad = [c for c in cases if c["kind"] == "invalid"]
    if len(bad) > maxbad:        # keep the compile loop within the tier budget (witnesses are at the end: kept)
        drop = {c["id"] for c in bad[:len(bad) - maxbad]}
        cases = [c for c in cases if c["id"] not in drop]
    tr, nv, ni = run_cases(ctx, cases)
    ctx.scope.update({"valid_literals": nv, "invalid_literals": ni})
    ctx.monitor("mon", SPECDIR, "Trace_C20.tla", "Trace_C20.cfg", tr, key=key, cover=cover)
    seen = set()
    for ev, why, _src in ctx.violations:
        k = fw.match_known(ctx.prop, ev, why, ctx.known)
        if k:
            seen.add(k["id"])
    stale = [i for i, _ in wit if i not in seen]
    if stale and not os.environ.get("VERIF_REPO"):
        raise fw.ToolError("known findings no longer observed although their witness ran (flip them to fixed): %s" % stale)
    return ctx.finish(
        rule="one event = one macro invocation (literal x macro x direct/facade path) or one separately compiled invalid "
             "literal; distinct = distinct (macro, path, token sequence)",
        explanation="TLC enumerates derivations of the literal grammar (LiteralDef) with magnitudes on both sides of 2^32, 2^64, "
                    "2^128 and beyond two words plus single-token mutations; one generated crate prints what every macro built "
                    "and what the run-time parser built from the same text, invalid literals are compiled one by one; "
                    "Trace_C20 compares both values (and float precisions) with LiteralDef's Value / Precision.",
        required_cover=["kind:valid", "kind:invalid", "via:direct", "via:facade", "compiled:False",
                        "macro:ubig", "macro:ibig", "macro:fbig", "macro:dbig", "macro:rbig", "macro:static_ubig",
                        "macro:static_ibig", "macro:static_fbig", "macro:static_dbig", "macro:static_rbig",
                        "tok:sign", "tok:tilde", "tok:uscore", "tok:prefix", "tok:point", "tok:expmark", "tok:slash", "tok:base",
                        "tok:separator", "mag:zero", "mag:le32bit", "mag:le64bit", "mag:le128bit", "mag:multiword",
                        "den:beyond32bit", "float:precision", "fam:int", "fam:bin", "fam:hex", "fam:dec", "fam:rat"])


def selftest(ctx):
    """binding demonstration: one macro result altered, one run-time precision altered, one invalid literal reported
    as compiling - the monitor must flag exactly those events"""
    cases = gen_cases(ctx, 400, 200, name="selftest")
    pick = []
    for fam in ("int", "bin", "hex", "dec", "rat"):
        pick += [c for c in cases if c["kind"] == "valid" and c["fam"] == fam][:6]
    cases = pick + [c for c in cases if c["kind"] == "invalid"][:4] + [dict(c) for c in FIXED_INVALID[:3]]
    for i, c in enumerate(cases):
        c["id"] = i + 1
    tr, nv, ni = run_cases(ctx, cases)
    ev = [json.loads(l) for l in open(tr)]
    v0 = ctx.monitor("selftest-clean", SPECDIR, "Trace_C20.tla", "Trace_C20.cfg", tr)
    known_bad = {b["i"] for b in v0["bad"]}
    i_int = next(i for i, e in enumerate(ev) if e["kind"] == "valid" and "m" in e["mv"] and i + 1 not in known_bad)
    i_flt = next(i for i, e in enumerate(ev) if e["kind"] == "valid" and "prec" in e["mv"] and i + 1 not in known_bad)
    i_bad = next(i for i, e in enumerate(ev) if e["kind"] == "invalid" and i + 1 not in known_bad)
    m = ev[i_int]["mv"]["m"]
    if m:
        m[0] = (m[0] + 1) % 256 or 2
    else:
        m.append(1)
    ev[i_flt]["rv"]["prec"] = ev[i_flt]["rv"]["prec"] + 1
    ev[i_bad]["compiled"] = True
    open(tr, "w").write("".join(json.dumps(e) + "\n" for e in ev))
    v = ctx.monitor("selftest", SPECDIR, "Trace_C20.tla", "Trace_C20.cfg", tr)
    got = sorted(b["i"] for b in v["bad"] if b["i"] not in known_bad)
    want = sorted([i_int + 1, i_flt + 1, i_bad + 1])
    whys = {b["i"]: b["why"] for b in v["bad"]}
    ok = got == want
    print("SELFTEST %s: corrupted events %s -> monitor flagged %s %s" % ("PASS" if ok else "FAIL", want, got, [whys[i] for i in got]))
    return 0 if ok else 2
