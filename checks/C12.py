"""C12 gcd, integer roots and integer logarithms satisfy their defining inequalities."""
import json
import os
import shutil
import threading
from concurrent.futures import ThreadPoolExecutor

import framework as fw

SPEC = "C12"
MON = ("Trace_C12.tla", "Trace_C12.cfg")
LOG2_ACTIONS = ["U8One", "U8Pow2", "U8Three", "U8Fourth", "U8Square", "U16Pow2", "U16Direct", "WideTop", "WideGen"]


# ------------------------------------------------------------------ helpers
def par_monitors(ctx, jobs, threads=4, timeout=2400, heap="5g", spec=None, mon=None, hooks=None):
    """Runs several monitors (one TLC process each, 1 worker) side by side, then accounts them one after
    the other through ctx.monitor (whose TLC call is answered from the results already computed)."""
    spec = spec or SPEC
    mon = mon or MON
    h_nontrivial, h_cover, h_key = hooks or (nontrivial, cover, key)
    jobs = [j for j in jobs if os.path.exists(j[1]) and os.path.getsize(j[1]) > 0]
    results = {}

    # same JVM options as framework.tlc, plus a cap on GC threads (several JVMs run side by side)
    jopts = "%s -XX:ParallelGCThreads=2 -Xmx%s -DTLA-Library=%s -Dtlc2.tool.queue.IStateQueue=StateDeque" % (fw.JAVA_BASE, heap, fw.LIB)

    def run(job):
        name, trace = job[0], job[1]
        return name, fw.tlc(name, os.path.join(fw.SPEC, spec), mon[0], mon[1], ctx.rundir, workers=1, timeout=timeout,
                            env={"TRACE": trace, "JAVA_TOOL_OPTIONS": jopts}, deque=True, heap=heap)

    with ThreadPoolExecutor(max_workers=threads) as ex:
        for name, r in ex.map(run, jobs):
            results[name] = r
    orig = fw.tlc
    lock = threading.Lock()
    verdicts = {}
    with lock:
        fw.tlc = lambda name, *a, **k: results[name]
        try:
            for job in jobs:
                verdicts[job[0]] = ctx.monitor(job[0], spec, mon[0], mon[1], job[1], nontrivial=h_nontrivial, cover=h_cover, key=h_key)
        finally:
            fw.tlc = orig
    return verdicts


def split_trace(ctx, trace, name, parts):
    """round-robin split of an ndjson trace into `parts` files (balanced cost)"""
    lines = open(trace).read().split("\n")
    lines = [l for l in lines if l.strip()]
    parts = max(1, min(parts, len(lines)))
    out = []
    for p in range(parts):
        fn = ctx.path("%s-%d.ndjson" % (name, p))
        with open(fn, "w") as f:
            f.write("\n".join(lines[p::parts]) + "\n")
        out.append(("mon-%s-%d" % (name, p), fn))
    return out


def iv(x):
    return fw.intval(x)


def key(e):
    k = {f: e[f] for f in e if f not in ("seq", "src", "id", "prop", "fam")}
    return json.dumps(k, sort_keys=True)


def nontrivial(e):
    op = e["op"]
    if op == "gcd":
        return iv(e["a"]) != 0 and iv(e["b"]) != 0
    if op == "root":
        return abs(iv(e["x"])) > 1 and e["n"] > 1
    if op == "ilog":
        return abs(iv(e["x"])) > 1
    if op == "remove":
        return iv(e["x"]) > 1 and iv(e["f"]) > 1
    if op == "prim":
        return e["n"] > 1
    if op == "log2":
        return True
    return False


def cover(e):
    op = e["op"]
    cs = ["op:" + op]
    src = e.get("src", "")
    if src.startswith("gen:"):
        cs.append("fam:" + src[4:])
    elif src:
        cs.append("src:" + src)
    if e.get("build") == "nostd":
        cs.append("build:nostd")
    if e.get("profile") == "release":
        cs.append("profile:release")
    groups = []
    for f in ("outs", "ext", "rem", "log2"):
        if isinstance(e.get(f), list):
            groups += e[f]
    if any(g.get("out", {}).get("k") == "panic" for g in groups):
        cs.append(op + ":panic")
    if any(len(g.get("forms", [])) >= 8 for g in groups):
        cs.append("forms>=8-agree")
    if op == "gcd":
        a, b = abs(iv(e["a"])), abs(iv(e["b"]))
        wa, wb = fw.nwords(e["a"]), fw.nwords(e["b"])
        if a == 0 and b == 0:
            cs.append("gcd:0-0")
        elif a == 0 or b == 0:
            cs.append("gcd:one-zero")
        else:
            if a == b:
                cs.append("gcd:equal")
            elif max(a, b) % min(a, b) == 0:
                cs.append("gcd:one-divides-other")
            if min(wa, wb) >= 3:
                cs.append("gcd:both-large")
            elif max(wa, wb) >= 3:
                cs.append("gcd:large-with-" + ("word" if min(wa, wb) == 1 else "dword"))
            else:
                cs.append("gcd:small")
            if min(wa, wb) >= 3 and (a % (1 << 128) == 0 or b % (1 << 128) == 0):
                cs.append("gcd:trailing-zero-words")
        if iv(e["a"]) < 0 or iv(e["b"]) < 0:
            cs.append("gcd:negative-operand")
        if any(g["out"]["k"] == "ok" and (iv(g["out"]["v"]["s"]) < 0 or iv(g["out"]["v"]["t"]) < 0) for g in e["ext"]):
            cs.append("gcd:negative-coefficient")
    elif op == "root":
        x, n = iv(e["x"]), e["n"]
        cs.append("root:n=%s" % (n if n <= 3 else "nth"))
        if n == 0:
            cs.append("root:zeroth")
        elif x < 0:
            cs.append("root:negative-" + ("even" if n % 2 == 0 else "odd"))
        elif x <= 1:
            cs.append("root:radicand-0-1")
        else:
            w = fw.nwords(e["x"])
            if n == 2 and w >= 3:
                cs.append("sqrt:large-" + ("odd" if w % 2 else "even") + "-words")
            ok = [g for g in e["outs"] if g["out"]["k"] == "ok"]
            if ok and n >= 2:
                s = abs(iv(ok[0]["out"]["v"]["s"]))
                if s ** n == x:
                    cs.append("root:perfect-power")
                elif (s + 1) ** n - 1 == x:
                    cs.append("root:perfect-power-minus-1")
                elif s ** n + 1 == x:
                    cs.append("root:perfect-power-plus-1")
        if e["rem"]:
            cs.append("root:with-remainder")
    elif op == "ilog":
        x, b = abs(iv(e["x"])), iv(e["b"])
        if x == 0 or b < 2:
            cs.append("ilog:invalid")
        else:
            ok = [g for g in e["outs"] if g["out"]["k"] == "ok"]
            if ok:
                ee = iv(ok[0]["out"]["v"]["e"])
                if ee < 100000:
                    p = b ** ee
                    cs.append("ilog:exact-power" if p == x else "ilog:power-minus-1" if p * b - 1 == x else "ilog:power-plus-1" if p + 1 == x and ee > 0 else "ilog:general")
            cs.append("ilog:base-" + ("pow2" if b & (b - 1) == 0 else "word" if b < 2 ** 64 else "dword" if b < 2 ** 128 else "large"))
        if iv(e["x"]) < 0:
            cs.append("ilog:negative")
    elif op == "remove":
        x, f = iv(e["x"]), iv(e["f"])
        if x == 0 or f < 2:
            cs.append("remove:degenerate")
        else:
            ok = [g for g in e["outs"] if g["out"]["k"] == "ok"]
            if ok and ok[0]["out"]["v"]["some"] == 1:
                k = iv(ok[0]["out"]["v"]["k"])
                cs.append("remove:k=0" if k == 0 else "remove:k=1" if k == 1 else "remove:k>=2")
            cs.append("remove:factor-" + ("pow2" if f & (f - 1) == 0 else "general"))
    elif op == "log2":
        cs.append("log2:" + e["kind"])
        for g in e["outs"]:
            if g["out"]["k"] == "ok":
                lb, ub = g["out"]["v"]["lb"], g["out"]["v"]["ub"]
                if lb == ub and (lb[0] & 0x7f80) != 0x7f80:
                    cs.append("log2:exact-bounds")
                if (lb[0] & 0x7f80) == 0x7f80:
                    cs.append("log2:infinite-bound")
        if e["kind"] == "int" and fw.nwords(e["x"]) >= 3:
            cs.append("log2:large-int")
    elif op == "prim":
        cs.append("prim:u8" if e["n"] < 256 else "prim:u16")
        cs.append("prim:" + e["only"])
    return cs


def witness_cases(ctx, builds):
    out = []
    for k in ctx.known:
        if k.get("status") == "open" and "C12" in k.get("properties", [k.get("property")]) and "witness" in k:
            ws = k["witness"] if isinstance(k["witness"], list) else [k["witness"]]
            for w in ws:
                if w.get("build", "std") in builds:
                    c = dict(w)
                    c["src"] = "wit:" + k["id"]
                    out.append(c)
    return out


# log of zero with power-of-two bases: wraps instead of panicking only without overflow checks (F29)
RELEASE_CASES = [{"op": "ilog", "x": {"s": 0, "m": []}, "b": {"s": 0, "m": [2]}, "src": "wit:F29"},
                 {"op": "ilog", "x": {"s": 0, "m": []}, "b": {"s": 0, "m": [4]}, "src": "wit:F29"},
                 {"op": "ilog", "x": {"s": 0, "m": []}, "b": {"s": 0, "m": [3]}, "src": "wit:F29"}]


def write_cases(path, cases):
    with open(path, "w") as f:
        for c in cases:
            f.write(json.dumps(c) + "\n")
    return path


# ------------------------------------------------------------------ the check
def run(ctx):
    std = fw.build("std64", "c12")
    nostd = fw.build("nostd", "c12")
    rel = fw.build("release", "c12")
    if ctx.replay:
        case = json.load(open(ctx.replay))["case"]
        if str(case.get("op", "")).startswith("model:"):
            raise fw.ToolError("model-checking counterexamples are replayed by running the check")
        p = write_cases(ctx.path("replay-case.ndjson"), [case])
        binary = nostd if case.get("build") == "nostd" else rel if case.get("profile") == "release" else std
        tr = ctx.drive(binary, ["--cases", p, "--n", "0"], "trace-replay.ndjson")
        ctx.monitor("replay", SPEC, MON[0], MON[1], tr, nontrivial=nontrivial, cover=cover, key=key)
        return ctx.finish()

    threads = ctx.pick(4, 6)
    # 1. algorithm layer: the table-driven no_std estimator against the definition, every 16-bit argument
    stride = ctx.pick(32, 1)
    cfg = fw.write_cfg(ctx.path("MC_Log2Table.cfg"), invariants=["Encloses", "Sane"], constants={"Stride": stride})
    ctx.scope["log2table_stride"] = stride
    holder = {}

    def mc_job():
        holder["mc"] = fw.tlc("mc-log2table", os.path.join(fw.SPEC, SPEC), "Log2Table.tla", cfg, ctx.rundir,
                              workers=ctx.pick(3, 6), timeout=2400, heap="8g")

    # the coverage run uses the same state graph without the (expensive) invariants
    ccfg = fw.write_cfg(ctx.path("MC_Log2Cover.cfg"), constants={"Stride": stride})
    ctx.mc("mc-log2cover", SPEC, "Log2Table.tla", ccfg, workers=2, timeout=600, required_actions=LOG2_ACTIONS)
    mc_thread = threading.Thread(target=mc_job)
    mc_thread.start()
    # the Karatsuba square root (root.rs) at word level: every normalised operand of 4, 6, 8 two-bit words; progressions and
    # the neighbours of perfect squares for 10..14 words; three-bit words in the thorough tier
    sq = [("w2", 2, "{2, 3, 4}", 1), ("w2long", 2, "{5, 6, 7}", ctx.pick(4099, 257))] + ([] if ctx.quick else [("w3", 3, "{2, 3}", 1)])
    for nm, w, hl, st in sq:
        scfg = fw.write_cfg(ctx.path("MC_SqrtAlg_%s.cfg" % nm), invariants=["SqrtOK"], constants={"W": w, "HalfLens": hl, "Stride": st})
        ctx.mc("mc-sqrtalg-" + nm, SPEC, "SqrtAlg.tla", scfg, workers=4, timeout=2400)
    ctx.scope["sqrt_alg_scopes"] = [list(x) for x in sq]
    # integer logarithms: the trial-multiplication repair of a floating-point underestimate, for every admissible estimate
    for nm, w, mt in [("w3", 3, ctx.pick(1400, 4095))] + ([] if ctx.quick else [("w4", 4, 3000)]):
        icfg = fw.write_cfg(ctx.path("MC_IlogAlg_%s.cfg" % nm), invariants=["IlogOK"], constants={"W": w, "MaxTarget": mt})
        ctx.mc("mc-ilog-" + nm, SPEC, "IlogAlg.tla", icfg, workers=4, timeout=2400)
    # the Lehmer gcd loop at word level: single-word and double-word guesses, signed double-word step, every pair in scope
    lg = [("w3", 3, 1023, 1, "FALSE"), ("w3d", 3, 1023, 1, "TRUE")] + ([] if ctx.quick else [("w4", 4, 4095, 7, "FALSE"), ("w4d", 4, 4095, 7, "TRUE"), ("w3x", 3, 4095, 5, "TRUE")])
    for nm, w, xmax, ys, dw in lg:
        gcfg2 = fw.write_cfg(ctx.path("MC_GcdLehmerAlg_%s.cfg" % nm), invariants=["GcdOK"], constants={"W": w, "XMax": xmax, "YStride": ys, "Dword": dw})
        ctx.mc("mc-lehmer-" + nm, SPEC, "GcdLehmerAlg.tla", gcfg2, workers=4, timeout=2400)
    # the extended gcd on top of it: the cofactor buffers with their length fields (Euclidean and Lehmer updates, the
    # one-word ending), the exact division for the second coefficient, and the word-sized extended gcd of dashu-base
    xg = [("w3", 3, 1023, 1, "FALSE"), ("w3d", 3, 1023, 2, "TRUE")] + ([] if ctx.quick else [("w4", 4, 8191, 7, "FALSE"), ("w3x", 3, 4095, 3, "FALSE")])
    for nm, w, xmax, ys, dw in xg:
        xcfg = fw.write_cfg(ctx.path("MC_GcdExtAlg_%s.cfg" % nm), spec="ExtSpec", invariants=["GcdExtOK"], constants={"W": w, "XMax": xmax, "YStride": ys, "Dword": dw})
        ctx.mc("mc-gcdext-" + nm, SPEC, "GcdExtAlg.tla", xcfg, workers=4, timeout=3000)
    pcfg = fw.write_cfg(ctx.path("MC_GcdExtAlg_prim.cfg"), spec="PrimSpec", invariants=["PrimOK"], constants={"W": ctx.pick(7, 9), "XMax": 0, "YStride": 1, "Dword": "FALSE"})
    ctx.mc("mc-gcdext-prim", SPEC, "GcdExtAlg.tla", pcfg, workers=4, timeout=2400)
    # Newton's iteration of nth_root (n >= 3) and the repeated-squares schedule of UBig::remove, every operand of the scope
    rcfg = fw.write_cfg(ctx.path("MC_RootRemoveAlg.cfg"), invariants=["RootOK", "RemoveOK"],
                        constants={"MaxN": ctx.pick(20000, 70000), "MaxRootN": ctx.pick(16, 18), "MaxX": ctx.pick(6000, 20000), "MaxF": ctx.pick(30, 40)})
    ctx.mc("mc-rootremove", SPEC, "RootRemoveAlg.tla", rcfg, workers=4, timeout=2400)
    # the Karatsuba square root of the widest primitive (base/src/ring/root.rs, u128 from two u64 halves) at 12 / 16 (20) bits
    for h in (6, 8) + (() if ctx.quick else (10,)):
        qcfg = fw.write_cfg(ctx.path("MC_PrimSqrtAlg_%d.cfg" % h), invariants=["SqrtOK"], constants={"H": h})
        ctx.mc("mc-primsqrt-h%d" % h, SPEC, "PrimSqrtAlg.tla", qcfg, workers=4, timeout=2400)

    # 2. spec -> impl: the partition enumerated by TLC
    step16 = ctx.pick(32, 1)
    ctx.scope.update({"u16_stride": step16, "u8": "exhaustive (all pairs for gcd)"})
    gcfg = fw.write_cfg(ctx.path("Gen_C12.cfg"), invariants=["Emit"],
                        constants={"Seed": ctx.seed % 1000, "Step16": step16, "Big": "FALSE" if ctx.quick else "TRUE"})
    cases, ncases = ctx.gen("gen", SPEC, "Gen_C12.tla", gcfg, workers=4)
    allc = [json.loads(l) for l in open(cases)]
    prim = [c for c in allc if c["op"] == "prim"]
    big = [c for c in allc if c["op"] != "prim"]
    if ctx.quick:
        # quick tier: every second non-primitive case of each family (rotating with the seed)
        fams = {}
        for c in big:
            fams.setdefault(c["fam"], []).append(c)
        big = [c for f in sorted(fams) for i, c in enumerate(fams[f]) if (i + ctx.seed) % 2 == 0 or f == "gspecial"]
    wit = witness_cases(ctx, ("std",))
    pbig = write_cases(ctx.path("cases-big.ndjson"), wit + big)
    pprim = write_cases(ctx.path("cases-prim.ndjson"), prim)
    plog = write_cases(ctx.path("cases-log2.ndjson"), [c for c in big if c["op"] == "log2"])
    prel = write_cases(ctx.path("cases-release.ndjson"),
                       RELEASE_CASES + [c for c in big if c["op"] in ("ilog", "root")][:: ctx.pick(4, 1)])

    nrnd = ctx.pick(500, 6000)
    mw = ctx.pick(14, 30)
    t_big = ctx.drive(std, ["--cases", pbig, "--n", "0"], "trace-big.ndjson")
    t_prim = ctx.drive(std, ["--cases", pprim, "--n", "0"], "trace-prim.ndjson")
    t_rnd = ctx.drive(std, ["--seed", str(ctx.seed), "--n", str(nrnd), "--max-words", str(mw)], "trace-rnd.ndjson")
    # the no_std build of the estimator: the same primitive sweep and the log2 cases, log2_bounds only
    t_nprim = ctx.drive(nostd, ["--cases", pprim, "--n", "0", "--only-log2"], "trace-nostd-prim.ndjson")
    t_nlog = ctx.drive(nostd, ["--cases", plog, "--seed", str(ctx.seed + 7), "--n", str(ctx.pick(150, 1500)), "--max-words", str(mw), "--only-log2"],
                       "trace-nostd-log2.ndjson")
    t_rel = ctx.drive(rel, ["--cases", prel, "--n", "0"], "trace-release.ndjson")
    # operands above the length where the Lehmer loop switches to double-word guesses (read from the source)
    dwl = fw.source_constants()["GCD_MIN_DWORD_GUESS_LEN"]
    ctx.scope.update({"lehmer_dword_guess_len_words": dwl})
    t_leh = ctx.drive(std, ["--seed", str(ctx.seed + 3), "--n", "0", "--lehmer", str(ctx.pick(4, 12)), str(dwl + 1)], "trace-lehmer.ndjson")
    t_lehr = ctx.drive(rel, ["--seed", str(ctx.seed + 4), "--n", "0", "--lehmer", str(ctx.pick(2, 8)), str(dwl + 1)], "trace-lehmer-rel.ndjson")
    # continued fractions with a huge partial quotient right where the tracked cofactors cross a word boundary (see GcdExtAlg)
    ncf = ctx.pick(400, 4000)
    ctx.scope.update({"cf_cases": 2 * ncf})
    nsf = ctx.pick(160, 1600)
    t_cf = ctx.drive(std, ["--seed", str(ctx.seed + 5), "--n", "0", "--cf", str(ncf), "--smallfam", str(nsf)], "trace-cf.ndjson")
    t_cfr = ctx.drive(rel, ["--seed", str(ctx.seed + 6), "--n", "0", "--cf", str(ncf), "--smallfam", str(nsf)], "trace-cf-rel.ndjson")

    jobs = []
    jobs += split_trace(ctx, t_cf, "cf", ctx.pick(2, 6))
    jobs += split_trace(ctx, t_cfr, "cf-rel", ctx.pick(2, 6))
    jobs += split_trace(ctx, t_leh, "lehmer", ctx.pick(4, 6))
    jobs += split_trace(ctx, t_lehr, "lehmer-rel", ctx.pick(2, 4))
    jobs += split_trace(ctx, t_big, "big", ctx.pick(4, 6))
    jobs += split_trace(ctx, t_prim, "prim", ctx.pick(3, 12))
    jobs += split_trace(ctx, t_rnd, "rnd", ctx.pick(2, 6))
    jobs += split_trace(ctx, t_nprim, "nprim", ctx.pick(2, 8))
    jobs += split_trace(ctx, t_nlog, "nlog", 1)
    jobs += split_trace(ctx, t_rel, "rel", 1)
    verdicts = par_monitors(ctx, jobs, threads=threads)
    mc_thread.join()
    if "mc" not in holder:
        raise fw.ToolError("Log2Table model checking did not complete")
    orig = fw.tlc
    fw.tlc = lambda name, *a, **k: holder["mc"]
    try:
        ctx.mc("mc-log2table", SPEC, "Log2Table.tla", cfg, timeout=2400)       # accounting of the finished run
    finally:
        fw.tlc = orig
    und = sum(v.get("undecided", 0) for v in verdicts.values())
    chk = sum(v.get("log2bounds", 0) for v in verdicts.values())
    # DRIFT: no_std outputs that differ from the transcribed estimator (Log2Fp8); reported, never a verdict
    ctx.drift += sum(v.get("drift", 0) for v in verdicts.values())
    if ctx.drift:
        fw.log("DRIFT: %d no_std log2_bounds results differ from the Log2Fp8 model (the definition still decides)" % ctx.drift)
    if chk and und * 20 > chk:
        raise fw.ToolError("vacuity: %d of %d log2 bounds could not be decided by the enclosure" % (und, chk))
    rc = ctx.finish(
        rule="one event = one operation on one argument tuple executed in every call form (a `prim` event = all operations on "
             "one 16-bit value incl. its gcd partners); distinct = distinct (op, operands, outcomes); non-trivial = operands "
             "other than 0 and 1",
        explanation="Log2Table (no_std estimator) model-checked for every 16-bit argument against NumTheoryDef; TLC enumerates "
                    "family x size x shape (Gen_C12) incl. every u8 / u16 value; every recorded call is decided by the "
                    "relations of NumTheoryDef (Trace_C12); log2 bounds by a rigorous interval enclosure, f32 patterns are "
                    "sampled on a lattice, not enumerated",
        extra={"log2_bounds_checked": chk, "log2_bounds_undecided": und},
        required_cover=(["branch:gcd-ext:euclid-step-with-top-quotient-word", "branch:lehmer-ext:step-out-of-order", "branch:lehmer:step-out-of-order"]
                        if fw.has_probe() else []) +      # counted by the library itself (hook: integer/src/verif_probe.rs)
                       ["op:gcd", "op:root", "op:ilog", "op:remove", "op:log2", "op:prim", "prim:u8", "prim:u16", "build:nostd",
                        "profile:release", "gcd:0-0", "gcd:one-zero", "gcd:equal", "gcd:one-divides-other", "gcd:both-large",
                        "gcd:large-with-word", "gcd:large-with-dword", "gcd:small", "gcd:trailing-zero-words",
                        "gcd:negative-operand", "gcd:negative-coefficient", "fam:gfib", "fam:gkk1", "fam:glehmer", "fam:gtz",
                        "root:n=2", "root:n=3", "root:n=nth", "root:zeroth", "root:negative-even", "root:negative-odd",
                        "root:radicand-0-1", "sqrt:large-odd-words", "sqrt:large-even-words", "root:perfect-power",
                        "root:perfect-power-minus-1", "root:perfect-power-plus-1", "root:with-remainder",
                        "ilog:invalid", "ilog:exact-power", "ilog:power-minus-1", "ilog:power-plus-1", "ilog:base-pow2",
                        "ilog:base-word", "ilog:base-dword", "ilog:base-large", "remove:degenerate", "remove:k=0", "remove:k>=2",
                        "remove:factor-pow2", "remove:factor-general", "log2:int", "log2:f32", "log2:f64", "log2:fbig",
                        "log2:rbig", "log2:exact-bounds", "log2:infinite-bound", "log2:large-int", "forms>=8-agree"])
    # an open finding whose witness does not fail any more is reported, not fatal (the maintainer flips the entry)
    for s in fw.stale_findings_check(ctx, [k["id"] for k in ctx.known if "C12" in k.get("properties", []) and "witness" in k]):
        fw.log("NOTE stale finding %s: its witness no longer fails on this tree" % s)
    return rc


# ------------------------------------------------------------------ self test
GOOD = [
    {"op": "gcd", "a": {"s": 0, "m": [12]}, "b": {"s": 1, "m": [18]}},
    {"op": "root", "x": {"s": 0, "m": [17]}, "n": 2},
    {"op": "root", "x": {"s": 0, "m": [27]}, "n": 3},
    {"op": "ilog", "x": {"s": 0, "m": [232, 3]}, "b": {"s": 0, "m": [10]}},
    {"op": "remove", "x": {"s": 0, "m": [24]}, "f": {"s": 0, "m": [2]}},
    {"op": "log2", "kind": "int", "x": {"s": 0, "m": [5]}},
    {"op": "prim", "n": 1000},
    {"op": "gcd", "a": {"s": 0, "m": [0] * 30 + [6]}, "b": {"s": 0, "m": [0] * 25 + [9, 1]}},
]


def selftest(ctx):
    """binding demonstration: one recorded field is corrupted in each of six events; the monitor must flag exactly those"""
    std = fw.build("std64", "c12")
    p = write_cases(ctx.path("good.ndjson"), GOOD)
    tr = ctx.drive(std, ["--cases", p, "--n", "0"], "trace.ndjson")
    v0 = ctx.monitor("selftest-base", SPEC, MON[0], MON[1], tr)
    ev = [json.loads(l) for l in open(tr)]

    def bump(x):
        m = x["m"]
        if m:
            m[0] = (m[0] + 1) % 256 or 1
        else:
            m.append(1)

    bump(ev[0]["outs"][0]["out"]["v"]["g"])                 # gcd value
    bump(ev[1]["rem"][0]["out"]["v"]["r"])                  # sqrt remainder
    bump(ev[3]["outs"][0]["out"]["v"]["e"])                 # ilog exponent
    ev[5]["outs"][0]["out"]["v"]["lb"][0] += 1              # log2 lower bound: exponent field + 1/128
    ev[6]["cbrt"][0]["out"]["v"]["s"] += 1                  # primitive cube root
    bump(ev[7]["ext"][0]["out"]["v"]["s"])                  # Bezout coefficient of a large pair
    tr2 = ctx.path("trace-corrupt.ndjson")
    with open(tr2, "w") as f:
        for e in ev:
            f.write(json.dumps(e) + "\n")
    v = ctx.monitor("selftest", SPEC, MON[0], MON[1], tr2)
    got = [b["i"] for b in v["bad"]]
    ok = v0["bad"] == [] and got == [1, 2, 4, 6, 7, 8]
    print("SELFTEST %s: clean trace flagged %s; corrupted events [1, 2, 4, 6, 7, 8] -> monitor flagged %s (%s)" %
          ("PASS" if ok else "FAIL", [b["i"] for b in v0["bad"]], got, [b["why"] for b in v["bad"]]))
    if ok:
        shutil.rmtree(ctx.rundir, ignore_errors=True)
    return 0 if ok else 2
