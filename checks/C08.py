"""C08 Float text I/O is lossless and base/precision changes are faithfully rounded."""
import json
import os
import shutil
import sys
import framework as fw

WITNESSES = ["F05/C08", "F30", "C08.N1", "C08.N2"]
POWREL = {(2, 8), (8, 2), (2, 16), (16, 2)}


def _tb(e):
    return e["base"] if e["fn"] == "with_precision" else 10 if e["fn"] == "to_decimal" else 2 if e["fn"] == "to_binary" else e["tbase"]


def cover(e):
    op = e["op"]
    cs = ["op:" + op, "src:" + e.get("src", "?")]
    if op == "parse":
        t = bytes(e["text"]).decode(errors="replace")
        cs.append("parse:base%d" % e["base"])
        ks = set(o["out"]["k"] for o in e["outs"])
        cs += ["parse:" + k for k in ks]
        if "ok" in ks:
            body = t.lstrip("+-")
            if e["base"] == 2 and body.startswith("0x"):
                cs.append("parse:hex-float")
                if "p" in body.lower():
                    cs.append("parse:marker-p")
            else:
                for m, name in (("@", "at"), ("e", "e"), ("b", "b"), ("o", "o"), ("h", "h")):
                    if m in body.lower() and (m == "@" or {"e": 10, "b": 2, "o": 8, "h": 16}[m] == e["base"]):
                        cs.append("parse:marker-" + name)
            if "_" in t:
                cs.append("parse:underscore")
            if "." in t:
                cs.append("parse:point")
                if body.startswith(".") or body.startswith("0x."):
                    cs.append("parse:no-integral-part")
                if body.split(".")[1][:1] in ("", "e", "E", "@", "b", "B", "o", "O", "h", "H", "p", "P") and not body.split(".")[1][:1].isdigit():
                    cs.append("parse:no-fraction-part")
            if any(c.isupper() for c in t):
                cs.append("parse:uppercase")
            if t.startswith("-"):
                cs.append("parse:negative")
            v = e["outs"][0]["out"]["v"]
            if abs(v["exp"]) > 100:
                cs.append("parse:large-exponent")
            if not v["sig"]["m"]:
                cs.append("parse:zero")
        if len(e["outs"]) > 1:
            cs.append("parse:forms-disagree")
    elif op == "print":
        cs.append("print:" + e["kind"])
        cs.append("print:base%d" % e["base"])
        if e["fprec"] < 0:
            cs.append("print:roundtrip")
            if abs(e["x"]["exp"]) > 38:
                cs.append("print:roundtrip-large-exponent")
            if e["x"]["exp"] < 0:
                cs.append("print:roundtrip-fraction")
        else:
            cs.append("print:precision:" + e["mode"])
            if e["fprec"] == 0:
                cs.append("print:precision-0")
            if e["x"]["exp"] + e["fprec"] < 0:
                cs.append("print:precision-rounds")
            else:
                cs.append("print:precision-pads")
        if not e["x"]["sig"]["m"]:
            cs.append("print:zero")
        if e["x"]["sig"]["s"] == 1:
            cs.append("print:negative")
        if any(o["out"]["k"] != "ok" for o in e["outs"]):
            cs.append("print:panic")
        if any("repr" in o["forms"] for o in e["outs"]):
            cs.append("print:repr-form")
    elif op == "convert":
        cs.append("convert:" + e["fn"])
        cs.append("convert:mode:" + e["mode"])
        B, T, ex = e["base"], _tb(e), e["x"]["exp"]
        if e["fn"] == "with_precision":
            br = "with-precision"
        elif T == B:
            br = "same-base"
        elif (B, T) in POWREL:
            br = "power-up" if T > B else "power-down"
        elif abs(ex) <= 38:
            br = "small-exp-pos" if ex >= 0 else "small-exp-div"
        else:
            br = "large-exp"
        cs.append("convert:branch:" + br)
        o = e["out"]
        if o["k"] == "ok":
            cs.append("convert:flag:" + o["flag"])
            if o["v"]["prec"] == 0:
                cs.append("convert:unlimited-target")
        else:
            cs.append("convert:panic")
    elif op == "from_f":
        cs.append("from_f:" + e["ty"])
        f = e["bits"]
        if e["ty"] == "f64":
            ef, frac = (f[0] % 32768) // 16, (f[0] % 16, f[1], f[2], f[3])
            emax = 2047
        else:
            ef, frac = (f[0] % 32768) // 128, (f[0] % 128, f[1])
            emax = 255
        cs.append("from_f:" + ("nan" if ef == emax and any(frac) else "inf" if ef == emax else
                               "zero" if ef == 0 and not any(frac) else "subnormal" if ef == 0 else "normal"))
    return cs


def nontrivial(e):
    if e["op"] == "parse":
        return len(e["text"]) > 1
    if e["op"] in ("print", "convert"):
        return bool(e["x"]["sig"]["m"])
    return any(e["bits"])


REQUIRED = ["op:parse", "op:print", "op:convert", "op:from_f", "src:gen", "src:rnd",
            "parse:base2", "parse:base8", "parse:base10", "parse:base16", "parse:base36", "parse:ok", "parse:hex-float",
            "parse:marker-p", "parse:marker-at", "parse:marker-e", "parse:marker-b", "parse:marker-o", "parse:marker-h",
            "parse:underscore", "parse:point", "parse:no-integral-part", "parse:no-fraction-part", "parse:uppercase",
            "parse:negative", "parse:large-exponent", "parse:zero",
            "print:display", "print:lexp", "print:uexp", "print:binary", "print:octal", "print:lhex", "print:uhex",
            "print:roundtrip", "print:roundtrip-large-exponent", "print:roundtrip-fraction", "print:precision-0",
            "print:precision-rounds", "print:precision-pads", "print:zero", "print:negative", "print:repr-form",
            "print:precision:Zero", "print:precision:Away", "print:precision:Up", "print:precision:Down",
            "print:precision:HalfEven", "print:precision:HalfAway",
            "convert:with_base", "convert:with_base_and_precision", "convert:to_decimal", "convert:to_binary",
            "convert:with_precision", "convert:branch:with-precision", "convert:branch:same-base", "convert:branch:power-up",
            "convert:branch:power-down", "convert:branch:small-exp-pos", "convert:branch:small-exp-div",
            "convert:branch:large-exp", "convert:flag:Exact", "convert:flag:NoOp", "convert:flag:AddOne", "convert:flag:SubOne",
            "from_f:f32", "from_f:f64", "from_f:nan", "from_f:inf", "from_f:zero", "from_f:subnormal", "from_f:normal"]

MC_ACTIONS = ["Same", "PowUp", "PowDown", "SmallPos", "SmallNeg", "Large", "WithPrec"]


def _mon(ctx, name, trace, **kw):
    return ctx.monitor(name, "C08", "Trace_C08.tla", "Trace_C08.cfg", trace, libs=("C07",), nontrivial=nontrivial,
                       cover=cover, **kw)


def run(ctx):
    drive = fw.build("std64", "c08")
    if ctx.replay:
        case = json.load(open(ctx.replay))["case"]
        p = ctx.path("replay-case.ndjson")
        open(p, "w").write(json.dumps(case) + "\n")
        tr = ctx.drive(drive, ["--cases", p, "--n", "0"], "trace-replay.ndjson")
        _mon(ctx, "replay", tr)
        return ctx.finish()
    # algorithm layer: branch structure of convert_base / with_precision against FloatDef!Rounded, small scope
    scope = {"Bases": fw.tla_set([2, 3, 4, 8, 10, 16]), "MaxSig": ctx.pick(9, 40), "MaxExp": 3, "MaxPrec": 3, "TH": 2}
    ctx.scope.update({"mc": dict(scope), "exponents": "-400..400 (quick GEN: -120..120 dense classes, +-400 in the random driver)"})
    c1 = fw.write_cfg(ctx.path("MC_ConvertBase.cfg"), invariants=["Conforms", "OneBranch"], constants=scope)
    ctx.mc("mc-convertbase", "C08", "ConvertBaseAlg.tla", c1, workers=4, timeout=2400)
    # the digit-count / exponent arithmetic of the parser with isize scaled down to 4 (5) bits: every scale x digit layout
    for b, imax in ((2, 7), (10, 7)) + (() if ctx.quick else ((2, 15), (10, 12))):
        fcfg = fw.write_cfg(ctx.path("MC_FloatParseAlg_b%d_%d.cfg" % (b, imax)), invariants=["ParseOK"],
                            constants={"B": b, "IMax": imax, "MaxInt": 2, "MaxFrac": 3})
        ctx.mc("mc-floatparse-b%d-i%d" % (b, imax), "C08", "FloatParseAlg.tla", fcfg, workers=4)
    # beyond the statement: the width the formatter computes against the characters it writes (Display and the scientific forms)
    lcfg = fw.write_cfg(ctx.path("MC_FloatFmtAlg.cfg"), invariants=["PlainOK", "SciOK"],
                        constants={"MaxL": ctx.pick(6, 9), "MaxExp": ctx.pick(8, 12), "MaxPrec": ctx.pick(9, 13), "FixPoint": "TRUE"})
    ctx.mc("mc-floatfmt", "C08", "FloatFmtAlg.tla", lcfg, workers=2)
    lcfg0 = fw.write_cfg(ctx.path("MC_FloatFmtAlg_pinned.cfg"), invariants=["PlainOK"],
                         constants={"MaxL": 3, "MaxExp": 2, "MaxPrec": 2, "FixPoint": "FALSE"})
    r0 = ctx.mc("mc-floatfmt-pinned", "C08", "FloatFmtAlg.tla", lcfg0, workers=1, expect_ok=False)
    if "PlainOK" not in r0.invariant_violated:
        raise fw.ToolError("FloatFmtAlg no longer refutes the width computation of the pinned code")
    # vacuity: every branch is taken (coverage run without the definition: TLC's -coverage start-up does not
    # terminate on the BigNat-heavy invariant)
    c2 = fw.write_cfg(ctx.path("MC_ConvertBaseCover.cfg"), invariants=["OneBranch"], constants=dict(scope, MaxSig=5))
    ctx.mc("mc-convertbase-branches", "C08", "ConvertBaseAlg.tla", c2, workers=4, required_actions=MC_ACTIONS)
    # the definition alone must be refuted by the model of the code as it is (open findings F05/C08, C08.N2)
    c3 = fw.write_cfg(ctx.path("MC_ConvertBaseStrict.cfg"), invariants=["Strict"], constants=dict(scope, MaxSig=5))
    r3 = ctx.mc("mc-convertbase-strict", "C08", "ConvertBaseAlg.tla", c3, workers=4, expect_ok=False)
    open_ids = set(k["id"] for k in ctx.known if k.get("status") == "open")
    if {"F05/C08", "C08.N2"} & open_ids and "Strict" not in r3.invariant_violated:
        raise fw.ToolError("ConvertBaseAlg no longer refutes the plain definition although F05/C08 / C08.N2 are open")
    ctx.notes.append("ConvertBaseAlg: Strict refuted by TLC as expected (model of the unrepaired code)")
    # spec -> impl
    gcfg = fw.write_cfg(ctx.path("Gen_C08.cfg"), invariants=["Emit"],
                        constants={"Thorough": "FALSE" if ctx.quick else "TRUE", "Seed": ctx.seed % 1000, "KeepG": ctx.pick(3, 1), "KeepC": ctx.pick(9, 3)})
    cases, ncases = ctx.gen("gen", "C08", "Gen_C08.tla", gcfg, workers=4, libs=("C07",), timeout=1500)
    wit = ctx.path("cases-witness.ndjson")
    with open(wit, "w") as f:
        for k in ctx.known:
            if "C08" in k.get("properties", []) and k.get("witness"):
                f.write(json.dumps(k["witness"]) + "\n")
    if os.path.getsize(wit):
        _mon(ctx, "mon-witness", ctx.drive(drive, ["--cases", wit, "--n", "0"], "trace-witness.ndjson"))
    tr1 = ctx.drive(drive, ["--cases", cases, "--n", "0"], "trace-gen.ndjson")
    _mon(ctx, "mon-gen", tr1, timeout=3400)
    # impl -> spec: seeded random literals, values, formats, conversions, bit patterns
    n = ctx.pick(2500, 12000)
    tr2 = ctx.drive(drive, ["--seed", str(ctx.seed), "--n", str(n), "--max-words", str(ctx.pick(12, 24)),
                            "--max-exp", str(ctx.pick(130, 400))], "trace-rnd.ndjson")
    _mon(ctx, "mon-rnd", tr2, timeout=3400)
    rc = ctx.finish(
        rule="one event = one call (all call forms of a parse / print grouped in one event); distinct = distinct "
             "(op, operands, options, outcome); non-trivial = non-zero value / text longer than one byte",
        explanation="MC: branch structure of convert_base (same base, power-related bases both ways, small exponent exact "
                    "power / repr_div, large exponent abstracted) and with_precision vs FloatDef!Rounded in a small scope "
                    "(open findings mirrored by Known predicates; the plain definition is refuted by TLC). GEN: derivations "
                    "of the documented literal grammar for bases 2, 8, 10, 16, 36 (and the 0x..p form), print->parse "
                    "round trips in every format with exponents -400..400, precision printing 0..6 digits x 6 modes, "
                    "conversions over base pairs x exponents on both sides of 38/39 x precisions, IEEE bit patterns. "
                    "TRACE: seeded random driver. Every event is evaluated on exact rationals over BigNat. Debug "
                    "formatting is not checked; width / fill / alignment of floats are not part of the statement: they are modelled "
                    "(FloatFmtAlg) and compared with core::fmt's layout of the unpadded text, reported as BEYOND-PROPERTY, never as a violation; literals with "
                    "exponents of more than 9 digits are outside the monitor's grammar (no verdict).",
        required_cover=REQUIRED)
    stale = fw.stale_findings_check(ctx, WITNESSES)
    if stale and rc == 0:
        print("STALE-FINDING property=C08 %s: witness no longer fails but the entry is still open" % ",".join(stale), file=sys.stderr)
        if not os.environ.get("VERIF_REPO"):
            return 2
    return rc


def selftest(ctx):
    """binding demonstration: corrupt one recorded field per operation, the monitor must flag exactly those events"""
    drive = fw.build("std64", "c08")
    tr = ctx.drive(drive, ["--seed", "5", "--n", "300", "--max-words", "10"], "trace.ndjson")
    v0 = ctx.monitor("selftest-base", "C08", "Trace_C08.tla", "Trace_C08.cfg", tr, libs=("C07",))
    base = set(b["i"] for b in v0["bad"])
    lines = open(tr).read().split("\n")
    want = {}
    for i, l in enumerate(lines, 1):
        if not l or i in base:
            continue
        e = json.loads(l)
        op = e["op"]
        tag = op + (":prec" if op == "print" and e["fprec"] >= 0 else "")
        if tag in want.values():
            continue
        if op == "parse" and e["outs"][0]["out"]["k"] == "ok" and len(e["outs"]) == 1:
            e["outs"][0]["out"]["v"]["prec"] += 1                       # precision = number of written digits
        elif op == "print" and e["fprec"] < 0 and e["outs"][0]["out"]["k"] == "ok" and e["x"]["sig"]["m"]:
            e["outs"][0]["out"]["back"]["v"]["exp"] += 1                # the number parsed back
        elif op == "print" and e["fprec"] >= 1 and e["outs"][0]["out"]["k"] == "ok":
            t = e["outs"][0]["out"]["text"]
            j = max(k for k, c in enumerate(t) if 48 <= c <= 57 or 97 <= c <= 122)
            if bytes(t).decode().rfind("e") > 0 or "@" in bytes(t).decode():
                continue
            t[j] = 49 if t[j] == 48 else 48                             # last printed digit
        elif op == "convert" and e["out"]["k"] == "ok" and e["out"]["flag"] in ("NoOp", "AddOne", "SubOne"):
            e["out"]["flag"] = "Exact"                                  # untruthful flag
        elif op == "from_f" and e["outs"][0]["out"]["k"] == "ok" and e["outs"][0]["out"]["v"]["inf"] == 0 and e["outs"][0]["out"]["v"]["sig"]["m"]:
            e["outs"][0]["out"]["v"]["exp"] -= 1
        else:
            continue
        lines[i - 1] = json.dumps(e)
        want[i] = tag
    open(tr, "w").write("\n".join(lines))
    v = ctx.monitor("selftest", "C08", "Trace_C08.tla", "Trace_C08.cfg", tr, libs=("C07",))
    got = set(b["i"] for b in v["bad"])
    ok = got == base | set(want) and len(want) == 5
    print("SELFTEST %s: corrupted events %s -> monitor flagged %s (%d baseline known-finding events)" %
          ("PASS" if ok else "FAIL", sorted(want.items()), sorted(got - base), len(base)))
    if ok:
        shutil.rmtree(ctx.rundir, ignore_errors=True)
    return 0 if ok else 2
