#!/usr/bin/env python3
"""Regenerates the tables of DESIGN.md Part I that are derived from data: findings (known_findings.json) and
seeded changes (seeded/*/meta.json).  The text between <!-- BEGIN x --> and <!-- END x --> is replaced."""
import json, glob, os, re
ROOT = os.path.dirname(os.path.dirname(os.path.abspath(__file__)))

def findings():
    k = json.load(open(os.path.join(ROOT, "known_findings.json")))
    fixed = [x for x in k if x["status"] == "fixed"]
    opened = [x for x in k if x["status"] == "open"]
    out = ["**Repaired in /repo (one `fix:` commit each; %d entries, several share a commit because the same defect is visible to "
           "several properties).** A fixed entry suppresses nothing: its witness case stays in the quick run and the violation is reported again if it returns.\n" % len(fixed),
           "| id | properties | commit | what failed |", "|---|---|---|---|"]
    for x in fixed:
        what = re.sub(r"^fixed: property=\S+ \S+ ", "", x["what"]).replace("|", "/")
        out.append("| %s | %s | %s | %s |" % (x["id"], ", ".join(x["properties"]), x.get("commit", ""), what[:230]))
    out += ["", "**Open (recorded, matched by call site + input class; %d entries).**\n" % len(opened),
            "| id | properties | what fails | why not repaired |", "|---|---|---|---|"]
    why = {
        "F11": "needs an output-type change of `IBig % unsigned` (API break)", "F05": "convert_base needs a redesign of its shortcut branches (rounding + precision bookkeeping)",
        "F09": "double rounding: needs a sticky-bit interface between quotient and rounding", "F31": "same as F09 for to_f32/to_f64",
        "F61": "threshold constant entangled with F62/F66 in the subnormal path", "F62": "subnormal branch of encode needs restructuring",
        "F64": "API decision (guide says TryFrom)", "F66": "double rounding in the subnormal range, same root as F31",
        "F30": "ln/exp branch of convert_base works at 2x precision: needs a Ziv-style retry", "C08.N1": "same root as F30", "C08.N2": "candidate patch (fixes/C08.N2.patch) also changes with_base's automatic precision: larger than a minimal repair",
        "F32": "heuristic guard digits, no Ziv loop: algorithmic", "F32b": "series code does not track exactness: algorithmic", "F32d": "argument is rounded to the working precision first: algorithmic",
        "C16.N1": "exponent arithmetic needs checked operations throughout cmp.rs", "C16.N2": "needs a decision which operations accept infinities", "C16.N3": "precision 0 means unlimited: needs an API decision",
        "C16.N4": "needs a continued-fraction based Farey neighbour instead of the mediant walk", "F36": "ParseError has no variant for a zero denominator (adding one is an API change)",
        "C16.N6": "needs checked exponent arithmetic throughout the float crate", "F80": "rounding interval must come from the IEEE format, not from the Repr", "F81": "error_bounds must be asymmetric at powers of the base",
        "C20.N1": "macros/tests/float.rs asserts the current behaviour",
    }
    for x in opened:
        base = re.split(r"[@/]", x["id"])[0]
        out.append("| %s | %s | %s | %s |" % (x["id"], ", ".join(x["properties"]), x["what"].replace("|", "/")[:260], why.get(x["id"], why.get(base, "not a small repair"))))
    return "\n".join(out)

def seeded():
    out = ["| id | files | what it needs to manifest | suite passes / demo fails / demo passes without | caught by (quick tier) | history |", "|---|---|---|---|---|---|"]
    tot = det = 0
    for d in sorted(glob.glob(os.path.join(ROOT, "seeded", "*"))):
        m = json.load(open(os.path.join(d, "meta.json")))
        v = m["verification"]
        conf = "yes" if v.get("confirmed") else "NOT CONFIRMED"
        by = ", ".join(m.get("detected_by", [])) or "**missed**"
        hist = "; ".join("%s: %s" % (h.get("at"), ",".join("%s=%s" % (c, "caught" if e == 1 else "missed" if e == 0 else "tool error") for c, e in h["checks"].items())) for h in m.get("history", []))
        tot += 1; det += bool(m.get("detected_by"))
        out.append("| %s | %s | %s | %s | %s | %s |" % (os.path.basename(d), ", ".join(m.get("files", [])), str(m.get("needs", "")).replace("|", "/").replace("\n", " ")[:240], conf, by, hist or "-"))
    out.append("")
    out.append("%d of %d kept seeded changes are caught by a quick-tier check." % (det, tot))
    return "\n".join(out)

def main():
    p = os.path.join(ROOT, "DESIGN.md")
    s = open(p).read()
    for name, fn in (("findings", findings), ("seeded", seeded)):
        b, e = "<!-- BEGIN %s -->" % name, "<!-- END %s -->" % name
        if b in s:
            s = s[:s.index(b) + len(b)] + "\n" + fn() + "\n" + s[s.index(e):]
    open(p, "w").write(s)
main()
