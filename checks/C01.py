"""C01 Integer ring arithmetic is exact for every operand size and sign."""
import json
import framework as fw

RING = {"add", "sub", "mul", "sqr", "cubic", "pow"}


def cover(e):
    cs = ["op:" + e["op"], "types:%s%s" % (e["lt"], e["rt"]), "src:" + e["src"]]
    wa, wb = fw.nwords(e["a"]), fw.nwords(e["b"])
    if e["op"] == "mul":
        m = min(wa, wb)
        cs.append("mul:" + ("zero" if m == 0 else "small" if m <= 2 else "schoolbook" if m <= 24 else "karatsuba" if m <= 192 else "toom3"))
    if e["op"] in ("add", "sub"):
        for o in e["outs"]:
            if o["out"]["k"] == "ok":
                wr = fw.nwords(o["out"]["v"])
                if wr > max(wa, wb):
                    cs.append("carry-grows")
                if wr < max(wa, wb):
                    cs.append("cancel-shrinks")
                if wr <= 2 < max(wa, wb):
                    cs.append("heap-to-inline")
            else:
                cs.append("panic")
    nforms = sum(len(o["forms"]) for o in e["outs"])
    if nforms > 10:
        cs.append("primitive-forms")
    return cs


def nontrivial(e):
    return len(e["a"]["m"]) > 0 and (e["op"] in ("sqr", "cubic", "pow") or len(e["b"]["m"]) > 0)


def run(ctx):
    drive = fw.build("std64", "c01")
    if ctx.replay:
        case = json.load(open(ctx.replay))["case"]
        p = ctx.path("replay-case.ndjson")
        open(p, "w").write(json.dumps(case) + "\n")
        tr = ctx.drive(drive, ["--cases", p, "--n", "0"], "trace-replay.ndjson")
        ctx.monitor("replay", "C01", "Trace_C01.tla", "Trace_C01.cfg", tr)
        return ctx.finish()
    # algorithm layer: add_ops.rs at word level (2-bit words), every ownership variant, exhaustive
    maxv = ctx.pick(90, 300)
    cfg = fw.write_cfg(ctx.path("MC_IntAddAlg.cfg"), invariants=["UnsignedOK", "SignedOK"], constants={"W": 2, "MaxV": maxv})
    ctx.mc("mc-addalg", "C01", "IntAddAlg.tla", cfg)
    ctx.scope.update({"IntAddAlg": {"W": 2, "MaxV": maxv}})
    # algorithm layer: mul/{mod,simple,karatsuba,toom_3,helpers}.rs and sqr/simple.rs at word level; the thresholds are
    # scaled down so that every algorithm, the chunk loop and the recursion between them is reached with few words
    base = {"TS": 2, "TK": 15, "ChunkLen": 3, "SqrSimple": 3}
    mulcfgs = [("small", dict(base, W=2, ExhBits=8, Seeds="{1}", Kinds='{"zero", "max", "rnd"}',
                              Shapes="<- " + ctx.pick("ShapesSmallQuick", "ShapesSmall"))),
               ("kara", dict(base, W=2, ExhBits=0, Seeds=ctx.pick("{1}", "{1, 2}"),
                             Kinds=ctx.pick('{"zero", "max", "rnd"}', '{"zero", "max", "rnd", "one", "top"}'),
                             Shapes="<- " + ctx.pick("ShapesKaraQuick", "ShapesKara"))),
               ("toom", dict(base, W=4, ExhBits=0, Seeds="{1}", Kinds='{"zero", "max", "rnd"}',
                             Shapes="<- " + ctx.pick("ShapesToomQuick", "ShapesToom")))]
    if ctx.tier == "thorough":
        mulcfgs.append(("toomchunk", dict(base, W=4, ExhBits=0, Seeds="{1}", Kinds='{"zero", "max", "rnd"}', Shapes="<- ShapesToomChunk")))
    for name, consts in mulcfgs:
        cfg = fw.write_cfg(ctx.path("MC_IntMulAlg_%s.cfg" % name), invariants=["AddSignedMulOK", "MultiplyOK", "SqrOK", "RefOK"], constants=consts)
        ctx.mc("mc-mulalg-" + name, "C01", "MC_IntMulAlg.tla", cfg, timeout=3000)
    # pow.rs: factor-of-two removal, lifting of a word base, the square-and-multiply loops with their buffer / scratch bookkeeping
    for w in ctx.pick((4,), (3, 4, 5)):
        pcfg = fw.write_cfg(ctx.path("MC_IntPowAlg_w%d.cfg" % w), invariants=["PowOK"], constants={"W": w, "MaxBits": 30})
        ctx.mc("mc-powalg-w%d" % w, "C01", "IntPowAlg.tla", pcfg, workers=4)
    # scratch-memory accounting of the same stack, with the thresholds and requirement formulas read from the source
    sc0 = fw.source_constants()
    memc = {"TS": sc0["MUL_THRESHOLD_SIMPLE"], "TK": sc0["MUL_THRESHOLD_KARATSUBA"], "SqrSimple": sc0["SQR_MAX_LEN_SIMPLE"],
            "KaraA": sc0["KARATSUBA_MEM_A"], "KaraB": sc0["KARATSUBA_MEM_B"], "ToomA": sc0["TOOM3_MEM_A"], "ToomB": sc0["TOOM3_MEM_B"],
            "KaraMin": sc0["KARATSUBA_MIN_LEN"], "ToomMin": sc0["TOOM3_MIN_LEN"], "MaxN": ctx.pick(800, 2500)}
    cfg = fw.write_cfg(ctx.path("MC_MulMemAlg.cfg"), invariants=["EnoughForMul", "EnoughForSqr", "Monotone", "SplitsOK"], constants=memc)
    ctx.mc("mc-mulmem", "C01", "MulMemAlg.tla", cfg)
    ctx.scope.update({"MulMemAlg": memc})
    ctx.scope.update({"IntMulAlg": {n: {k: v for k, v in c.items()} for n, c in mulcfgs}})
    # spec -> impl: the partition enumerated by TLC
    # the size classes follow the switch points of the code (read from the source, pinned values as fallback)
    sc = fw.source_constants()
    ts, tk, sq = sc["MUL_THRESHOLD_SIMPLE"], sc["MUL_THRESHOLD_KARATSUBA"], sc["SQR_MAX_LEN_SIMPLE"]
    classes = sorted(set(ctx.pick([0, 1, 2, 3, 4, ts - 1, ts, ts + 1, ts + 2, sq + 2, sq + 3],
                                  [0, 1, 2, 3, 4, 5, ts - 1, ts, ts + 1, ts + 2, sq, sq + 1, sq + 2, sq + 3, sq + 4, 64, 97])))
    k = ctx.pick(2, 4)
    big = sorted(set(ctx.pick([tk, tk + 1, tk + 2], [tk - 1, tk, tk + 1, tk + 2, tk + 3, tk + 8, tk + 64])))
    ctx.scope.update({"source_constants": sc})
    ctx.scope.update({"classes_words": classes, "toom3_classes_words": big, "variants": k})
    cfg = fw.write_cfg(ctx.path("Gen_C01.cfg"), invariants=["Emit"],
                       constants={"Classes": fw.tla_set(classes), "BigClasses": fw.tla_set(big), "K": k, "Seed": ctx.seed % 1000})
    cases, ncases = ctx.gen("gen", "C01", "Gen_C01.tla", cfg)
    ctx.append_witnesses(cases)
    tr1 = ctx.drive(drive, ["--cases", cases, "--n", "0"], "trace-gen.ndjson")
    ctx.monitor("mon-gen", "C01", "Trace_C01.tla", "Trace_C01.cfg", tr1, nontrivial=nontrivial, cover=cover)
    # products above simple::CHUNK_LEN words (read from the source): the long operand is cut into chunks, the remainder product
    # re-enters the dispatcher with the operands swapped; checked through sign, length and residues (IntArithDef!HugeProductOK)
    import random
    L = sc["MUL_SIMPLE_CHUNK_LEN"]
    ctx.scope["huge_product_chunk_len_words"] = L
    rnd = random.Random(ctx.seed)
    def mag(words, kind):
        nb = 8 * words
        if kind == "ones":
            v = (1 << (8 * nb)) - 1
        elif kind == "top":
            v = (1 << (8 * nb - 1)) + 1
        else:
            v = rnd.getrandbits(8 * nb) | (1 << (8 * nb - 1))
        return list(v.to_bytes(nb, "little"))
    shapes = [(L + 6, 20), (2 * L + 3, 24), (2 * L + 3, 2 * L + 2), (2 * L + 12, 2 * L + 2), (L + 1, L + 1), (3 * L + 5, L + 2),
              (2 * L + 24, 2 * L), (L + 30, L + 7)]
    if ctx.quick:
        shapes = shapes[ctx.seed % 2::2] + [(2 * L + 3 + ctx.seed % 20, 2 * L + 2)]
    hugec = []
    for j, (la, lb) in enumerate(shapes):
        for kind in (("rnd", "rnd"), ("ones", "rnd"), ("ones", "ones"))[: ctx.pick(2, 3)]:
            a = {"s": (j + len(hugec)) % 2, "m": mag(la, kind[0])}
            b = {"s": (j // 2) % 2, "m": mag(lb, kind[1])}
            if (j + len(hugec)) % 3 == 0:
                a, b = b, a
            hugec.append({"op": "mul", "lt": "I", "rt": "I", "a": a, "b": b, "n": 0})
    hugec.append({"op": "sqr", "lt": "U", "rt": "U", "a": {"s": 0, "m": mag(L + 9, "rnd")}, "b": {"s": 0, "m": []}, "n": 0})
    ph = ctx.path("cases-huge.ndjson")
    open(ph, "w").write("".join(json.dumps(c) + "\n" for c in hugec))
    tr3 = ctx.drive(drive, ["--cases", ph, "--n", "0"], "trace-huge.ndjson")
    ctx.monitor("mon-huge", "C01", "Trace_C01.tla", "Trace_C01.cfg", tr3, nontrivial=nontrivial, cover=cover, timeout=3000)
    # the carries Toom-3 parks between its partial sums and applies at the end: a search over block-structured operands, guided by
    # the library's rare-branch counters (hook: integer/src/verif_probe.rs), until each of the four has run through a whole
    # block in at least two products; those products are validated like all others
    if fw.has_probe():
        trp = ctx.drive(drive, ["--seed", str(ctx.seed + 9), "--n", "0", "--probe-search", str(ctx.pick(3000000, 12000000)),
                                str(ctx.pick(2, 8))], "trace-probe.ndjson")
        summ = json.load(open(trp + ".probe"))
        ctx.scope["toom3_carry_search"] = summ
        for kpt in summ["kept"]:
            if kpt["n"] > 0:
                ctx.cover["probe:" + kpt["name"]] = ctx.cover.get("probe:" + kpt["name"], 0) + kpt["n"]
        ctx.monitor("mon-probe", "C01", "Trace_C01.tla", "Trace_C01.cfg", trp, nontrivial=nontrivial, cover=cover, timeout=3000)
    else:
        ctx.notes.append("the source tree has no rare-branch counters (integer/src/verif_probe.rs): the Toom-3 carry search is skipped")
    # impl -> spec: seeded random operands, unbalanced sizes
    n = ctx.pick(1500, 12000)
    tr2 = ctx.drive(drive, ["--seed", str(ctx.seed), "--n", str(n), "--max-words", str(ctx.pick(40, 70))], "trace-rnd.ndjson")
    ctx.monitor("mon-rnd", "C01", "Trace_C01.tla", "Trace_C01.cfg", tr2, nontrivial=nontrivial, cover=cover, timeout=3000)
    return ctx.finish(
        rule="one event = one operation on one operand pair executed in every call form; distinct = distinct "
             "(op, types, operands, outcomes); non-trivial = no zero operand",
        explanation="IntAddAlg (add_ops.rs at word level, all ownership variants) model-checked exhaustively; TLC enumerates op x type pair x size-class pair x pattern (Gen_C01) and validates every recorded call "
                    "against BigInt (Trace_C01).",
        required_cover=["op:add", "op:sub", "op:mul", "op:sqr", "op:cubic", "op:pow", "mul:schoolbook", "mul:karatsuba", "mul:toom3",
                        "carry-grows", "cancel-shrinks", "heap-to-inline", "panic", "primitive-forms",
                        "types:UU", "types:II", "types:UI", "types:IU"] +
                       (["probe:toom3:carry-c%d-propagates" % k for k in range(4)] if fw.has_probe() else []))


def selftest(ctx):
    """binding demonstration: corrupt one recorded result, the monitor must reject exactly that event"""
    drive = fw.build("std64", "c01")
    tr = ctx.drive(drive, ["--seed", "5", "--n", "60", "--max-words", "8"], "trace.ndjson")
    lines = open(tr).read().split("\n")
    e = json.loads(lines[30])
    g = [o for o in e["outs"] if o["out"]["k"] == "ok"][0]
    m = g["out"]["v"]["m"]
    if m:
        m[0] = (m[0] + 1) % 256
        if len(m) == 1 and m[0] == 0:
            m[0] = 2
    else:
        m.append(1)
    lines[30] = json.dumps(e)
    open(tr, "w").write("\n".join(lines))
    v = ctx.monitor("selftest", "C01", "Trace_C01.tla", "Trace_C01.cfg", tr)
    ok = [b["i"] for b in v["bad"]] == [31]
    print("SELFTEST %s: corrupted event 31 -> monitor flagged %s" % ("PASS" if ok else "FAIL", [b["i"] for b in v["bad"]]))
    return 0 if ok else 2
