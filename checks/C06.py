"""C06 Conversions are lossless or refused; lossy ones are correctly rounded and say so."""
import json
import os
import framework as fw

SPECDIR = "C06"
BRANCHES = ["zero", "overflow", "underflow", "subshl", "subshr", "subpanic", "normalone", "normal"]
ENC_FINDINGS = ("F60", "F61", "F62")


def is_open(ctx, fid):
    return any(k["id"] == fid and k.get("status") == "open" for k in ctx.known)


def tla_bool(b):
    return "TRUE" if b else "FALSE"


# ------------------------------------------------------------------ algorithm layer
def model_check(ctx):
    """IeeeEncode (transcription of base/src/bit.rs) against Ieee!RoundNE.  The Fix* constants follow the
    status of the findings: an open finding = the pinned code (its input class is excused in the invariant),
    a fixed finding = the repaired code (no excuse)."""
    base = {"FixSticky": tla_bool(not is_open(ctx, "F60")), "FixUnderflow": tla_bool(not is_open(ctx, "F61")),
            "FixShift": tla_bool(not is_open(ctx, "F62"))}
    mini = {"CB": 8, "M": 4, "EminNeg": 6, "Emax": 7, "Scope": '"mini"', "ELo": -22, "EHi": 12}
    f32 = {"CB": 32, "M": 24, "EminNeg": 126, "Emax": 127, "Style": '"f32"', "Scope": '"fam"'}
    f64 = {"CB": 64, "M": 53, "EminNeg": 1022, "Emax": 1023, "Style": '"f64"', "Scope": '"fam"'}
    runs = [("mini32", dict(mini, Style='"f32"')), ("mini64", dict(mini, Style='"f64"'))]
    if ctx.quick:
        # binary32 on the boundary families, exponent windows around the subnormal range, 1 and overflow
        runs += [("f32-sub", dict(f32, ELo=-181, EHi=-146)), ("f32-one", dict(f32, ELo=-2, EHi=2)),
                 ("f32-ovf", dict(f32, ELo=101, EHi=130))]
    else:
        runs += [("f32-all", dict(f32, ELo=-185, EHi=135)),
                 ("f64-sub", dict(f64, ELo=-1140, EHi=-1066)), ("f64-one", dict(f64, ELo=-12, EHi=12)),
                 ("f64-ovf", dict(f64, ELo=962, EHi=1030))]
    seen = set()
    for name, consts in runs:
        c = dict(base)
        c.update(consts)
        cfg = write_mc_cfg(ctx, name, c, ["EncodeCorrect", "DecodeCorrect", "BranchCover"])
        r = ctx.mc("mc-" + name, SPECDIR, "IeeeEncode.tla", cfg, timeout=1500)
        for cov in r.tagged("COVER"):
            seen.update(cov)
    # (the panicking shift branch exists only in the unrepaired code)
    # integer -> float on top of encode: top CB - 1 bits with a sticky bit, every integer from the container width to beyond overflow
    for name, style in (("mini-int32", '"f32"'), ("mini-int64", '"f64"')):
        c = dict(base)
        c.update(dict(mini, Style=style))
        cfg = write_mc_cfg(ctx, name, c, ["IntCorrect"], spec="IntSpec")
        ctx.mc("mc-" + name, SPECDIR, "IntToFloatAlg.tla", cfg, timeout=900)
    missing = [b for b in BRANCHES if b not in seen and not (b == "subpanic" and not is_open(ctx, "F62"))]
    if missing:
        raise fw.ToolError("vacuity: encode branches never reached by the model scope: %s" % missing)
    ctx.scope["encode_branches_covered"] = sorted(seen)
    # the excuses are not vacuous: without them the faithful model of the pinned code violates the definition
    if any(is_open(ctx, f) for f in ENC_FINDINGS):
        c = dict(base)
        c.update(dict(mini, Style='"f32"'))
        cfg = write_mc_cfg(ctx, "mini32-strict", c, ["EncodeStrict"])
        r = ctx.mc("mc-mini32-strict", SPECDIR, "IeeeEncode.tla", cfg, timeout=600, expect_ok=False)
        if "EncodeStrict" not in r.invariant_violated:
            raise fw.ToolError("the model of the pinned encode no longer exposes the open findings %s" % (ENC_FINDINGS,))
        ctx.notes.append("IeeeEncode without the finding classes: TLC reports a counterexample (expected while F60-F62 are open)")


def write_mc_cfg(ctx, name, consts, invariants, spec="Spec"):
    """TLC configuration files have no negative literals: the exponent window goes as (abs, sign) pairs"""
    c = dict(consts)
    lo, hi = c.pop("ELo"), c.pop("EHi")
    c.update({"ELoAbs": abs(lo), "ELoNegative": tla_bool(lo < 0), "EHiAbs": abs(hi), "EHiNegative": tla_bool(hi < 0)})
    lines = ["SPECIFICATION " + spec] + ["INVARIANT " + i for i in invariants] + ["CONSTANTS"]
    lines += ["  %s = %s" % (k, v) for k, v in c.items()]
    lines.append("CHECK_DEADLOCK FALSE")
    p = ctx.path("MC_IeeeEncode_%s.cfg" % name)
    open(p, "w").write("\n".join(lines) + "\n")
    return p


# ------------------------------------------------------------------ conformance
def tkind(x):
    return x.get("t", "?")


def cover(e):
    op = e["op"]
    cs = ["op:" + op, "src:" + e.get("src", "?")]
    outs = e["outs"]
    ks = set(o["out"].get("k") for o in outs)
    if op == "conv":
        st, dt = tkind(e["x"]), e["dt"]
        fam = lambda t: "prim" if t[0] in "ui" and t[1:].replace("size", "").isdigit() or t in ("usize", "isize") else t
        cs.append("conv:%s->%s" % (fam(st), fam(dt)))
        for o in outs:
            oo = o["out"]
            if oo["k"] == "ok":
                cs.append("conv-ok")
                if oo.get("back", {}).get("k") == "ok":
                    cs.append("roundtrip-ok")
            elif oo["k"] == "err":
                cs.append("refused:" + oo["e"])
        if st in ("f32", "f64"):
            b = e["x"]["b"]
            ef = (b[-1] >> 7) & 0xff if st == "f32" else (b[-1] >> 4) & 0x7ff
            frac0 = all(w == 0 for w in b[:-1]) and (b[-1] & (0x7f if st == "f32" else 0xf)) == 0
            top = 0xff if st == "f32" else 0x7ff
            cs.append("pfloat:" + ("nan" if ef == top and not frac0 else "inf" if ef == top else
                                   "zero" if ef == 0 and frac0 else "subnormal" if ef == 0 else "normal"))
            if ef == 0 and frac0 and b[-1] >> 15:
                cs.append("pfloat:negzero")
    elif op == "to_f":
        cs.append("to_f:%s->%s" % (tkind(e["x"]), e["ft"]))
        for o in outs:
            oo = o["out"]
            if oo["k"] == "ok":
                cs.append("flag:" + oo["flag"])
                b = oo["b"]
                ef = (b[-1] >> 7) & 0xff if e["ft"] == "f32" else (b[-1] >> 4) & 0x7ff
                top = 0xff if e["ft"] == "f32" else 0x7ff
                if ef == top:
                    cs.append("to_f:overflow-to-inf")
                elif ef == 0:
                    cs.append("to_f:subnormal-or-zero")
        if tkind(e["x"]) == "F":
            cs.append("to_f:base%d" % e["x"]["base"])
            if e["ft"] == "f32":
                cs.append("to_f32:mode:" + e["mode"])
    elif op == "to_float":
        cs.append("to_float:base%d:%s" % (e["base"], e["mode"]))
    elif op == "to_int":
        cs.append("to_int:" + e["rule"] + (":" + e["mode"] if e["rule"] == "mode" else ""))
    elif op == "encode":
        cs.append("encode:" + e["ft"])
        for o in outs:
            if o["out"]["k"] == "ok":
                cs.append("encode-flag:" + o["out"]["flag"])
    elif op == "decode":
        for o in outs:
            cs.append("decode:" + ("ok" if o["out"]["k"] == "ok" else str(o["out"].get("e", o["out"]["k"]))))
    if "panic" in ks:
        cs.append("panic-observed")
    return cs


def nontrivial(e):
    x = e.get("x")
    if x is None:
        return fw.intval(e["m"]) != 0
    if "i" in x:
        return len(x["i"]["m"]) > 0
    if "num" in x:
        return len(x["num"]["m"]) > 0
    if "f" in x:
        return len(x["f"]["sig"]["m"]) > 0
    return any(x["b"])


REQUIRED = [
    "op:conv", "op:to_f", "op:to_f_fast", "op:to_float", "op:to_int", "op:encode", "op:decode", "src:gen", "src:rnd",
    "conv:U->prim", "conv:I->prim", "conv:prim->U", "conv:prim->I", "conv:prim->F", "conv:prim->R", "conv:U->I", "conv:I->U",
    "conv:U->f32", "conv:I->f64", "conv:f32->U", "conv:f64->I", "conv:f32->F", "conv:f64->R", "conv:F->prim", "conv:F->U",
    "conv:F->I", "conv:F->R", "conv:R->F", "conv:R->U", "conv:R->I", "conv:R->f64", "conv:RX->f32", "conv:F->f32", "conv:F->f64",
    "conv:U->F", "conv:I->F", "conv:U->R", "conv:I->R", "conv:bool->U",
    "conv-ok", "roundtrip-ok", "refused:OutOfBounds", "refused:LossOfPrecision",
    "pfloat:nan", "pfloat:inf", "pfloat:zero", "pfloat:negzero", "pfloat:subnormal", "pfloat:normal",
    "to_f:U->f32", "to_f:U->f64", "to_f:I->f32", "to_f:I->f64", "to_f:R->f32", "to_f:R->f64", "to_f:RX->f64",
    "to_f:F->f32", "to_f:F->f64", "to_f:FR->f64", "to_f:base2", "to_f:base10", "to_f:base3", "to_f:base16",
    "to_f:overflow-to-inf", "to_f:subnormal-or-zero", "flag:Exact", "flag:Positive", "flag:Negative", "flag:NoOp", "flag:AddOne",
    "flag:SubOne", "to_f32:mode:Zero", "to_f32:mode:Away", "to_f32:mode:Up", "to_f32:mode:Down", "to_f32:mode:HalfEven",
    "to_f32:mode:HalfAway", "to_float:base10:HalfEven", "to_float:base2:HalfAway", "to_float:base10:Zero", "to_float:base2:Up",
    "to_int:mode:HalfEven", "to_int:mode:Down", "to_int:zero", "to_int:trunc-fract", "to_int:floor", "to_int:ceil",
    "to_int:half-away", "encode:f32", "encode:f64", "encode-flag:Exact", "encode-flag:Positive", "encode-flag:Negative",
    "decode:ok", "decode:Nan", "decode:Infinite",
]


def witnesses(ctx):
    return [(k["id"], k["witness"]) for k in ctx.known
            if k.get("status") == "open" and "C06" in k.get("properties", []) and "witness" in k]


def run(ctx):
    drive = fw.build("std64", "c06")
    if ctx.replay:
        case = json.load(open(ctx.replay))["case"]
        p = ctx.path("replay-case.ndjson")
        open(p, "w").write(json.dumps(case) + "\n")
        tr = ctx.drive(drive, ["--cases", p, "--n", "0"], "trace-replay.ndjson")
        ctx.monitor("replay", SPECDIR, "Trace_C06.tla", "Trace_C06.cfg", tr)
        return ctx.finish()
    model_check(ctx)
    # spec -> impl: the partition enumerated by TLC, plus the witness of every open finding
    stride = ctx.pick(12, 1)
    ctx.scope.update({"gen_stride": stride})
    cfg = fw.write_cfg(ctx.path("Gen_C06.cfg"), invariants=["Emit"], constants={"Seed": ctx.seed % 1000, "Stride": stride})
    cases, ncases = ctx.gen("gen", SPECDIR, "Gen_C06.tla", cfg, timeout=1500)
    wit = witnesses(ctx)
    # very long discarded parts at one half +- one unit (binary floats to integers and to f32 / f64): the rounding routines
    # pre-decide "more / less than half" from f32 estimates of log2, which are coarse at thousands of bits
    def wire(v):
        m = abs(v)
        return {"s": 1 if v < 0 else 0, "m": list(m.to_bytes((m.bit_length() + 7) // 8, "little"))}
    longtail = []
    for k, tail in enumerate(ctx.pick((7000, 12000), (7000, 12000, 20000, 40000))):
        half = 1 << (tail - 1)
        for d in (-1, 0, 1):
            for sgn in (1, -1):
                v = sgn * ((3 << tail) + half + d)                       # 3 + 1/2 + d * 2^-tail
                f = {"sig": wire(v), "exp": -tail, "inf": 0, "prec": 0}
                for mode in ("HalfEven", "HalfAway"):
                    longtail.append({"op": "to_int", "x": {"t": "F", "base": 2, "f": f}, "rule": "mode", "mode": mode, "src": "gen"})
                w = sgn * ((((1 << 52) + 5) << tail) + half + d)         # a 53-bit significand, then the tail
                g = {"sig": wire(w), "exp": -tail - 40, "inf": 0, "prec": 0}
                longtail.append({"op": "to_f", "x": {"t": "F", "base": 2, "f": g}, "ft": "f64", "mode": "HalfEven", "src": "gen"})
                w32 = sgn * ((((1 << 23) + 5) << tail) + half + d)
                g32 = {"sig": wire(w32), "exp": -tail - 10, "inf": 0, "prec": 0}
                longtail.append({"op": "to_f", "x": {"t": "FR", "base": 2, "f": g32}, "ft": "f32", "mode": "HalfEven", "src": "gen"})
    ctx.scope["long_tail_cases"] = len(longtail)
    with open(cases, "a") as f:
        for _, w in wit:
            f.write(json.dumps(w) + "\n")
        for c in longtail:
            f.write(json.dumps(c) + "\n")
    tr1 = ctx.drive(drive, ["--cases", cases, "--n", "0"], "trace-gen.ndjson")
    ctx.monitor("mon-gen", SPECDIR, "Trace_C06.tla", "Trace_C06.cfg", tr1, nontrivial=nontrivial, cover=cover, timeout=3000)
    # impl -> spec: seeded random sources through every From/TryFrom pair and every lossy conversion
    n = ctx.pick(4000, 40000)
    tr2 = ctx.drive(drive, ["--seed", str(ctx.seed), "--n", str(n), "--max-words", str(ctx.pick(20, 40))], "trace-rnd.ndjson")
    ctx.monitor("mon-rnd", SPECDIR, "Trace_C06.tla", "Trace_C06.cfg", tr2, nontrivial=nontrivial, cover=cover, timeout=3000)
    rc = ctx.finish(
        rule="one event = one conversion of one source value executed in every call form (from/into/try_from/try_into, "
             "by value and by reference, FBig and Repr); distinct = distinct (op, source, target, parameters, outcomes); "
             "non-trivial = non-zero source",
        explanation="IeeeEncode (base/src/bit.rs transcribed) is model-checked against Ieee!RoundNE on a mini format exhaustively "
                    "and on binary32/64 boundary families; TLC enumerates the conversion partition (Gen_C06) and validates every "
                    "recorded call against ConvDef (exact rationals, parametric IEEE format). to_f*_fast are only bounded.",
        required_cover=REQUIRED)
    stale = fw.stale_findings_check(ctx, [w for w, _ in wit])
    if stale and not os.environ.get("VERIF_REPO"):
        print("TOOL-ERROR C06: open findings whose witness no longer fails (stale known_findings.json): %s" % stale, flush=True)
        return 2 if rc == 0 else rc
    return rc


def selftest(ctx):
    """binding demonstration: corrupt one recorded result, the monitor must reject exactly that event"""
    drive = fw.build("std64", "c06")
    # integers below 2^64 -> f64: free of every open finding, so the untouched trace is clean
    cases = ctx.path("selftest-cases.ndjson")
    with open(cases, "w") as f:
        for i in range(40):
            v = (0x9E3779B97F4A7C15 * (i + 3)) % (1 << 64) | 1
            m = list(v.to_bytes(8, "little"))
            f.write(json.dumps({"op": "to_f", "x": {"t": "U", "i": {"s": 0, "m": m}}, "ft": "f64", "mode": "HalfEven"}) + "\n")
    tr = ctx.drive(drive, ["--cases", cases, "--n", "0"], "trace.ndjson")
    lines = open(tr).read().split("\n")
    e = json.loads(lines[20])
    b = e["outs"][0]["out"]["b"]
    b[0] ^= 1          # last bit of the returned double
    lines[20] = json.dumps(e)
    open(tr, "w").write("\n".join(lines))
    v = ctx.monitor("selftest", SPECDIR, "Trace_C06.tla", "Trace_C06.cfg", tr)
    ok = [x["i"] for x in v["bad"]] == [21]
    print("SELFTEST %s: corrupted event 21 -> monitor flagged %s" % ("PASS" if ok else "FAIL", [(x["i"], x["why"]) for x in v["bad"]]))
    return 0 if ok else 2
