//! Conformance harness for the TLA+ specifications under /verif/spec.
//!
//! The harness contains no oracle.  It builds operands from bytes, calls dashu, and writes what
//! came back as ndjson events; every verdict is computed by a TLC monitor over those events.
#![allow(clippy::all)]
#![allow(unused_macros)]

pub mod common;
pub mod forms;
pub mod fwire;
