//! Wire encoding for floats and rationals, and mode/base dispatch macros.
//!
//! Float value:   {"sig": <int>, "exp": <json int>, "inf": 0 | 1 | -1}   (+ "prec" for an FBig)
//! Rounded float: {"v": <float value>, "flag": "Exact" | "NoOp" | "AddOne" | "SubOne"}
//! Rational:      {"num": <int>, "den": <int>}
//! Integers (<int>) use the {s, m} encoding of common.rs.  Operands are built with Repr::new /
//! RBig::from_parts(_signed) / Relaxed::from_parts, which are raw constructors (Repr::new strips
//! trailing zero digits, RBig::from_parts reduces).
use crate::common::*;
use dashu_base::Approximation;
use dashu_float::round::{Round, Rounding};
use dashu_float::{Context, FBig, Repr};
use dashu_int::{IBig, UBig, Word};
use dashu_ratio::{RBig, Relaxed};
use serde_json::{json, Value};

pub fn enc_repr<const B: Word>(r: &Repr<B>) -> Value {
    if r.is_infinite() {
        let s = if r.sign() == dashu_base::Sign::Negative { -1 } else { 1 };
        json!({"sig": enc_i(&IBig::ZERO), "exp": 0, "inf": s})
    } else {
        json!({"sig": enc_i(r.significand()), "exp": r.exponent() as i64, "inf": 0})
    }
}
pub fn dec_repr<const B: Word>(v: &Value) -> Repr<B> {
    match v["inf"].as_i64().unwrap_or(0) {
        1 => Repr::<B>::infinity(),
        -1 => Repr::<B>::neg_infinity(),
        _ => Repr::<B>::new(dec_i(&v["sig"]), v["exp"].as_i64().unwrap() as isize),
    }
}
pub fn enc_f<R: Round, const B: Word>(f: &FBig<R, B>) -> Value {
    let mut v = enc_repr(f.repr());
    v["prec"] = json!(f.precision());
    v
}
pub fn dec_f<R: Round, const B: Word>(v: &Value) -> FBig<R, B> {
    let prec = v["prec"].as_u64().unwrap_or(0) as usize;
    FBig::from_repr(dec_repr::<B>(v), Context::<R>::new(prec))
}
pub fn flag_name(r: Option<Rounding>) -> &'static str {
    match r {
        None => "Exact",
        Some(Rounding::NoOp) => "NoOp",
        Some(Rounding::AddOne) => "AddOne",
        Some(Rounding::SubOne) => "SubOne",
    }
}
pub fn enc_rounded_f<R: Round, const B: Word>(r: &Approximation<FBig<R, B>, Rounding>) -> Value {
    match r {
        Approximation::Exact(v) => json!({"v": enc_f(v), "flag": "Exact"}),
        Approximation::Inexact(v, e) => json!({"v": enc_f(v), "flag": flag_name(Some(*e))}),
    }
}
pub fn enc_rounded_repr<const B: Word>(r: &Approximation<Repr<B>, Rounding>) -> Value {
    match r {
        Approximation::Exact(v) => json!({"v": enc_repr(v), "flag": "Exact"}),
        Approximation::Inexact(v, e) => json!({"v": enc_repr(v), "flag": flag_name(Some(*e))}),
    }
}

pub fn enc_r(x: &RBig) -> Value {
    json!({"num": enc_i(x.numerator()), "den": enc_u(x.denominator())})
}
pub fn enc_rx(x: &Relaxed) -> Value {
    json!({"num": enc_i(x.numerator()), "den": enc_u(x.denominator())})
}
pub fn dec_r(v: &Value) -> RBig {
    RBig::from_parts(dec_i(&v["num"]), dec_u(&v["den"]))
}
pub fn dec_rx(v: &Value) -> Relaxed {
    Relaxed::from_parts(dec_i(&v["num"]), dec_u(&v["den"]))
}
pub fn ubig_small(v: u64) -> UBig {
    ubig_from_bytes(&v.to_le_bytes())
}

pub const MODES: &[&str] = &["Zero", "Away", "Up", "Down", "HalfEven", "HalfAway"];
pub const BASES: &[u64] = &[2, 3, 8, 10, 16, 36];

/// `dispatch_mode!(name, R => expr)` evaluates `expr` with the type alias `R` bound to the mode
#[macro_export]
macro_rules! dispatch_mode {
    ($mode:expr, $R:ident => $body:expr) => {
        match $mode {
            "Zero" => { type $R = dashu_float::round::mode::Zero; $body }
            "Away" => { type $R = dashu_float::round::mode::Away; $body }
            "Up" => { type $R = dashu_float::round::mode::Up; $body }
            "Down" => { type $R = dashu_float::round::mode::Down; $body }
            "HalfEven" => { type $R = dashu_float::round::mode::HalfEven; $body }
            "HalfAway" => { type $R = dashu_float::round::mode::HalfAway; $body }
            other => panic!("unknown rounding mode {}", other),
        }
    };
}
/// `dispatch_base!(base, B => expr)` evaluates `expr` with the constant `B` bound to the base
#[macro_export]
macro_rules! dispatch_base {
    ($base:expr, $B:ident => $body:expr) => {
        match $base {
            2 => { const $B: dashu_int::Word = 2; $body }
            3 => { const $B: dashu_int::Word = 3; $body }
            8 => { const $B: dashu_int::Word = 8; $body }
            10 => { const $B: dashu_int::Word = 10; $body }
            16 => { const $B: dashu_int::Word = 16; $body }
            36 => { const $B: dashu_int::Word = 36; $body }
            other => panic!("unsupported base {}", other),
        }
    };
}
