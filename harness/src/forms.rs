//! Call-form tables: every way the library offers to spell one operation.
//!
//! `Outs` collects (form name, outcome) pairs; identical outcomes are grouped when written so the
//! monitor evaluates the definition once per event and compares every group with it.
use serde_json::{json, Value};

#[derive(Default)]
pub struct Outs(pub Vec<(String, Value)>);
impl Outs {
    pub fn new() -> Self {
        Outs(Vec::new())
    }
    pub fn push(&mut self, form: &str, r: Result<Value, String>) {
        self.0.push((form.to_string(), crate::common::outcome(r)));
    }
    /// [{forms: [...], out: {...}}] grouped by identical outcome (textual identity of the encoding)
    pub fn grouped(self) -> Value {
        let mut groups: Vec<(Value, Vec<String>)> = Vec::new();
        for (f, o) in self.0 {
            // panic messages differ between forms: group panics by kind, keep the first message
            let is_panic = o["k"] == "panic";
            if let Some(g) = groups.iter_mut().find(|g| if is_panic { g.0["k"] == "panic" } else { g.0 == o }) {
                g.1.push(f);
            } else {
                groups.push((o, vec![f]));
            }
        }
        Value::Array(groups.into_iter().map(|(o, fs)| json!({"forms": fs, "out": o})).collect())
    }
}

/// the four ownership combinations of a binary operator between two big types
#[macro_export]
macro_rules! forms_binop {
    ($outs:expr, $pre:expr, $a:expr, $b:expr, $op:tt, $enc:expr) => {{
        let (a, b) = (&$a, &$b);
        $outs.push(&format!("{}vv", $pre), $crate::common::guarded(|| $enc(&(a.clone() $op b.clone()))));
        $outs.push(&format!("{}rv", $pre), $crate::common::guarded(|| $enc(&(a $op b.clone()))));
        $outs.push(&format!("{}vr", $pre), $crate::common::guarded(|| $enc(&(a.clone() $op b))));
        $outs.push(&format!("{}rr", $pre), $crate::common::guarded(|| $enc(&(a $op b))));
    }};
}
/// the two compound-assignment forms
#[macro_export]
macro_rules! forms_assign {
    ($outs:expr, $pre:expr, $a:expr, $b:expr, $opa:tt, $enc:expr) => {{
        let (a, b) = (&$a, &$b);
        $outs.push(&format!("{}av", $pre), $crate::common::guarded(|| { let mut x = a.clone(); x $opa b.clone(); $enc(&x) }));
        $outs.push(&format!("{}ar", $pre), $crate::common::guarded(|| { let mut x = a.clone(); x $opa b; $enc(&x) }));
    }};
}
/// big (op) primitive, ownership combinations + assignment; `p` is a Copy primitive
#[macro_export]
macro_rules! forms_big_prim {
    ($outs:expr, $pre:expr, $a:expr, $p:expr, $op:tt, $opa:tt, $enc:expr) => {{
        let a = &$a; let p = $p;
        $outs.push(&format!("{}vv", $pre), $crate::common::guarded(|| $enc(&(a.clone() $op p))));
        $outs.push(&format!("{}rv", $pre), $crate::common::guarded(|| $enc(&(a $op p))));
        $outs.push(&format!("{}vr", $pre), $crate::common::guarded(|| $enc(&(a.clone() $op &p))));
        $outs.push(&format!("{}rr", $pre), $crate::common::guarded(|| $enc(&(a $op &p))));
        $outs.push(&format!("{}av", $pre), $crate::common::guarded(|| { let mut x = a.clone(); x $opa p; $enc(&x) }));
        $outs.push(&format!("{}ar", $pre), $crate::common::guarded(|| { let mut x = a.clone(); x $opa &p; $enc(&x) }));
    }};
}
/// primitive (op) big
#[macro_export]
macro_rules! forms_prim_big {
    ($outs:expr, $pre:expr, $p:expr, $b:expr, $op:tt, $enc:expr) => {{
        let b = &$b; let p = $p;
        $outs.push(&format!("{}vv", $pre), $crate::common::guarded(|| $enc(&(p $op b.clone()))));
        $outs.push(&format!("{}rv", $pre), $crate::common::guarded(|| $enc(&(&p $op b.clone()))));
        $outs.push(&format!("{}vr", $pre), $crate::common::guarded(|| $enc(&(p $op b))));
        $outs.push(&format!("{}rr", $pre), $crate::common::guarded(|| $enc(&(&p $op b))));
    }};
}

/// value of a small magnitude as u128 (None if it needs more than 16 bytes); no library conversion
pub fn small_mag(bytes: &[u8]) -> Option<u128> {
    if bytes.len() > 16 {
        return None;
    }
    let mut b = [0u8; 16];
    b[..bytes.len()].copy_from_slice(bytes);
    Some(u128::from_le_bytes(b))
}
/// signed value as i128 if it fits
pub fn small_signed(neg: bool, bytes: &[u8]) -> Option<i128> {
    let m = small_mag(bytes)?;
    if !neg {
        if m <= i128::MAX as u128 {
            Some(m as i128)
        } else {
            None
        }
    } else if m <= (i128::MAX as u128) + 1 {
        Some((m as i128).wrapping_neg())
    } else {
        None
    }
}

/// wire encoding {s, m} of a primitive integer, by plain widening casts (no library conversion)
pub trait PrimEnc {
    fn penc(self) -> serde_json::Value;
}
fn mag_to_value(neg: bool, m: u128) -> serde_json::Value {
    let mut mv = m.to_le_bytes().to_vec();
    while mv.last() == Some(&0) {
        mv.pop();
    }
    serde_json::json!({"s": if neg && !mv.is_empty() { 1 } else { 0 }, "m": mv})
}
macro_rules! impl_prim_enc_unsigned {
    ($($t:ty)*) => {$(impl PrimEnc for $t { fn penc(self) -> serde_json::Value { mag_to_value(false, self as u128) } })*};
}
macro_rules! impl_prim_enc_signed {
    ($($t:ty)*) => {$(impl PrimEnc for $t { fn penc(self) -> serde_json::Value { mag_to_value(self < 0, (self as i128).unsigned_abs()) } })*};
}
impl_prim_enc_unsigned!(u8 u16 u32 u64 u128 usize);
impl_prim_enc_signed!(i8 i16 i32 i64 i128 isize);
