//! Wire encoding, deterministic RNG, operand generators, panic capture, event log.
use dashu_int::{IBig, Sign, UBig, Word};
use serde_json::{json, Map, Value};
use std::io::{BufRead, BufWriter, Write};
use std::panic::{catch_unwind, AssertUnwindSafe};

pub const WORD_BYTES: usize = (Word::BITS / 8) as usize;

// ---------------------------------------------------------------- rng
#[derive(Clone)]
pub struct Rng(pub u64);
impl Rng {
    pub fn new(seed: u64) -> Self {
        Rng(seed.wrapping_mul(0x9E3779B97F4A7C15) ^ 0xD1B54A32D192ED03)
    }
    pub fn next(&mut self) -> u64 {
        self.0 = self.0.wrapping_add(0x9E3779B97F4A7C15);
        let mut z = self.0;
        z = (z ^ (z >> 30)).wrapping_mul(0xBF58476D1CE4E5B9);
        z = (z ^ (z >> 27)).wrapping_mul(0x94D049BB133111EB);
        z ^ (z >> 31)
    }
    pub fn below(&mut self, n: u64) -> u64 {
        if n == 0 {
            0
        } else {
            self.next() % n
        }
    }
    pub fn range(&mut self, lo: i64, hi: i64) -> i64 {
        lo + self.below((hi - lo + 1) as u64) as i64
    }
    pub fn coin(&mut self) -> bool {
        self.next() & 1 == 1
    }
    pub fn pick<'a, T>(&mut self, xs: &'a [T]) -> &'a T {
        &xs[self.below(xs.len() as u64) as usize]
    }
}

// ---------------------------------------------------------------- wire: integers
/// magnitude bytes, little endian, no high zero bytes; built from raw words only
pub fn words_to_bytes(words: &[Word]) -> Vec<u8> {
    let mut out = Vec::with_capacity(words.len() * WORD_BYTES);
    for w in words {
        out.extend_from_slice(&w.to_le_bytes());
    }
    while out.last() == Some(&0) {
        out.pop();
    }
    out
}
pub fn bytes_to_words(bytes: &[u8]) -> Vec<Word> {
    let mut words = Vec::with_capacity(bytes.len() / WORD_BYTES + 1);
    for chunk in bytes.chunks(WORD_BYTES) {
        let mut b = [0u8; WORD_BYTES];
        b[..chunk.len()].copy_from_slice(chunk);
        words.push(Word::from_le_bytes(b));
    }
    words
}
pub fn ubig_from_bytes(bytes: &[u8]) -> UBig {
    UBig::from_words(&bytes_to_words(bytes))
}
pub fn ibig_from_parts(neg: bool, bytes: &[u8]) -> IBig {
    IBig::from_parts(if neg { Sign::Negative } else { Sign::Positive }, ubig_from_bytes(bytes))
}
pub fn enc_u(x: &UBig) -> Value {
    json!({"s": 0, "m": words_to_bytes(x.as_words())})
}
pub fn enc_i(x: &IBig) -> Value {
    let (s, w) = x.as_sign_words();
    let m = words_to_bytes(w);
    let neg = s == Sign::Negative;
    // the sign is reported as stored (a negative zero would be visible to the monitor)
    json!({"s": if neg { 1 } else { 0 }, "m": m})
}
pub fn dec_i(v: &Value) -> IBig {
    let neg = v["s"].as_i64().unwrap_or(0) == 1;
    let bytes: Vec<u8> = v["m"].as_array().map(|a| a.iter().map(|b| b.as_u64().unwrap() as u8).collect()).unwrap_or_default();
    ibig_from_parts(neg, &bytes)
}
pub fn dec_u(v: &Value) -> UBig {
    let bytes: Vec<u8> = v["m"].as_array().map(|a| a.iter().map(|b| b.as_u64().unwrap() as u8).collect()).unwrap_or_default();
    ubig_from_bytes(&bytes)
}
/// hook triple of an integer: [neg, cap, len, heap]
#[cfg(dashu_verif)]
pub fn repr_u(x: &UBig) -> Value {
    let (neg, cap, len, heap, _ptr) = x.verif_repr();
    json!({"neg": neg, "cap": cap, "len": len, "heap": heap, "wb": WORD_BYTES})
}
#[cfg(dashu_verif)]
pub fn repr_i(x: &IBig) -> Value {
    let (neg, cap, len, heap, _ptr) = x.verif_repr();
    json!({"neg": neg, "cap": cap, "len": len, "heap": heap, "wb": WORD_BYTES})
}
#[cfg(not(dashu_verif))]
pub fn repr_u(_x: &UBig) -> Value {
    Value::Null
}
#[cfg(not(dashu_verif))]
pub fn repr_i(_x: &IBig) -> Value {
    Value::Null
}

// ---------------------------------------------------------------- panic capture
pub fn silence_panics() {
    std::panic::set_hook(Box::new(|_| {}));
}
/// Runs `f`; a panic of the code under test is data (its message), not a failure of the harness.
pub fn guarded<T>(f: impl FnOnce() -> T) -> Result<T, String> {
    match catch_unwind(AssertUnwindSafe(f)) {
        Ok(v) => Ok(v),
        Err(e) => Err(e
            .downcast_ref::<String>()
            .cloned()
            .or_else(|| e.downcast_ref::<&str>().map(|s| s.to_string()))
            .unwrap_or_else(|| "<non-string panic>".to_string())),
    }
}
/// Operand construction that goes through the library (e.g. `q * b + r`, `!a`) must not take the driver down:
/// a panic there is recorded on stderr and the fallback operand is used; the operation itself is exercised,
/// and judged, through the logged call forms.
pub fn guarded_or<T>(fallback: T, f: impl FnOnce() -> T) -> T {
    match catch_unwind(AssertUnwindSafe(f)) {
        Ok(v) => v,
        Err(_) => {
            eprintln!("harness: operand construction panicked inside the library; using fallback operand");
            fallback
        }
    }
}
/// outcome object: {"ok": value} or {"panic": message}
pub fn outcome(r: Result<Value, String>) -> Value {
    match r {
        Ok(v) => json!({"k": "ok", "v": v}),
        Err(m) => json!({"k": "panic", "msg": m}),
    }
}

// ---------------------------------------------------------------- event log
pub struct Log {
    w: BufWriter<std::fs::File>,
    pub n: u64,
    path: String,
}
impl Log {
    pub fn create(path: &str) -> Self {
        Log { w: BufWriter::new(std::fs::File::create(path).expect("create trace file")), n: 0, path: path.to_string() }
    }
    pub fn emit(&mut self, mut ev: Map<String, Value>) {
        self.n += 1;
        ev.insert("seq".into(), json!(self.n));
        serde_json::to_writer(&mut self.w, &Value::Object(ev)).unwrap();
        self.w.write_all(b"\n").unwrap();
    }
    pub fn ev(&mut self, v: Value) {
        if let Value::Object(m) = v {
            self.emit(m)
        } else {
            panic!("event must be an object")
        }
    }
    pub fn finish(mut self) -> u64 {
        self.w.flush().unwrap();
        // which rarely taken branches of the library this driver run went through (hook: integer/src/verif_probe.rs);
        // a driver with a summary of its own (c01 --probe-search) has written the file already
        #[cfg(dashu_probe)]
        {
            let side = format!("{}.probe", self.path);
            if !std::path::Path::new(&side).exists() {
                let h = dashu_int::verif_probe::hits();
                let hits: Vec<Value> = dashu_int::verif_probe::NAMES.iter().zip(h.iter()).map(|(n, v)| json!({"name": n, "n": v})).collect();
                let _ = std::fs::write(&side, json!({"hits": hits}).to_string());
            }
        }
        let _ = &self.path;
        self.n
    }
}
pub fn read_cases(path: &str) -> Vec<Value> {
    let f = std::fs::File::open(path).expect("open case file");
    std::io::BufReader::new(f)
        .lines()
        .map(|l| l.unwrap())
        .filter(|l| !l.trim().is_empty())
        .map(|l| serde_json::from_str(&l).expect("case line"))
        .collect()
}

// ---------------------------------------------------------------- operand generators
/// magnitude of exactly `nwords` 64-bit-equivalent words (8 bytes each), by pattern
pub fn pattern_bytes(rng: &mut Rng, nbytes: usize, pat: u64) -> Vec<u8> {
    if nbytes == 0 {
        return vec![];
    }
    let mut v = vec![0u8; nbytes];
    match pat % 8 {
        0 => {
            // dense random
            for b in v.iter_mut() {
                *b = rng.next() as u8;
            }
        }
        1 => {
            // all ones
            for b in v.iter_mut() {
                *b = 0xff;
            }
        }
        2 => {
            // power of two
            let k = rng.below(8) as u8;
            v[nbytes - 1] = 1 << k;
        }
        3 => {
            // 2^k - 1 (top byte partial)
            for b in v.iter_mut() {
                *b = 0xff;
            }
            v[nbytes - 1] = (1u16 << (1 + rng.below(8))).wrapping_sub(1) as u8;
        }
        4 => {
            // low words zero, random top
            let keep = 1 + rng.below(8.min(nbytes as u64)) as usize;
            for b in v[nbytes - keep..].iter_mut() {
                *b = rng.next() as u8;
            }
        }
        5 => {
            // sparse
            for _ in 0..(1 + rng.below(4)) {
                let i = rng.below(nbytes as u64) as usize;
                v[i] |= 1 << rng.below(8);
            }
        }
        6 => {
            // alternating / runs of ones and zeros at word granularity
            let mut on = rng.coin();
            let mut i = 0;
            while i < nbytes {
                let run = 1 + rng.below(16) as usize;
                for j in i..(i + run).min(nbytes) {
                    v[j] = if on { 0xff } else { 0 };
                }
                on = !on;
                i += run;
            }
        }
        _ => {
            // power of two plus/minus one around word boundaries: 2^(8k) + small
            v[nbytes - 1] = 1;
            v[0] = rng.below(3) as u8;
        }
    }
    if v[nbytes - 1] == 0 {
        v[nbytes - 1] = 1 + rng.below(255) as u8;
    }
    v
}

/// sizes (in bytes) that straddle the representation / algorithm switches of a 64-bit build
pub const SIZE_CLASSES_WORDS: &[usize] = &[0, 1, 2, 3, 4, 5, 8, 16, 23, 24, 25, 26, 31, 32, 33, 34, 48, 64, 70];
pub fn random_size_bytes(rng: &mut Rng, max_words: usize) -> usize {
    // half of the time a boundary class, otherwise uniform; length in bytes need not be word aligned
    let words = if rng.coin() {
        let cands: Vec<usize> = SIZE_CLASSES_WORDS.iter().cloned().filter(|w| *w <= max_words).collect();
        *rng.pick(&cands)
    } else {
        rng.below(max_words as u64 + 1) as usize
    };
    if words == 0 {
        return 0;
    }
    let slack = if rng.below(3) == 0 { rng.below(8) as usize } else { 0 };
    words * 8 - slack
}
pub fn random_ubig(rng: &mut Rng, max_words: usize) -> UBig {
    let n = random_size_bytes(rng, max_words);
    let pat = if rng.coin() { 0 } else { rng.next() };
    ubig_from_bytes(&pattern_bytes(rng, n, pat))
}
pub fn random_ibig(rng: &mut Rng, max_words: usize) -> IBig {
    let m = random_ubig(rng, max_words);
    IBig::from_parts(if rng.coin() { Sign::Negative } else { Sign::Positive }, m)
}

// ---------------------------------------------------------------- args
pub struct Args {
    pub out: String,
    pub cases: Option<String>,
    pub seed: u64,
    pub n: u64,
    pub max_words: usize,
    pub extra: Vec<String>,
}
pub fn parse_args(args: &[String]) -> Args {
    let mut a = Args { out: "trace.ndjson".into(), cases: None, seed: 1, n: 100, max_words: 40, extra: vec![] };
    let mut i = 0;
    while i < args.len() {
        match args[i].as_str() {
            "--out" => {
                a.out = args[i + 1].clone();
                i += 1
            }
            "--cases" => {
                a.cases = Some(args[i + 1].clone());
                i += 1
            }
            "--seed" => {
                a.seed = args[i + 1].parse().unwrap();
                i += 1
            }
            "--n" => {
                a.n = args[i + 1].parse().unwrap();
                i += 1
            }
            "--max-words" => {
                a.max_words = args[i + 1].parse().unwrap();
                i += 1
            }
            other => a.extra.push(other.to_string()),
        }
        i += 1;
    }
    a
}

/// common entry of every driver binary: silence panic output, parse the command line
pub fn start() -> Args {
    silence_panics();
    let argv: Vec<String> = std::env::args().collect();
    parse_args(&argv[1..])
}
