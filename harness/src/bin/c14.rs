//! C14: NumOrd / NumHash / AbsOrd / AbsEq across UBig, IBig, FBig (six bases), RBig, Relaxed and the
//! primitive integers and floats.
//!
//! A pool of typed values comes in ("val" cases, same typed wire values as c06); the harness runs
//! every ordered pair for which the library implements the trait and writes back what it got.
//! No oracle: orderings, booleans and "were the two NumHash values equal" are observations.
//!
//! Event: {"op": "pair", "a": tv, "b": tv,
//!         "o": {"pcmp", "cmp", "eq", "abs_cmp", "abs_eq", "heq"}}   each a string; "na" = trait not
//!         implemented for the pair (or num_cmp skipped because the pair is incomparable)
use dashu_base::{AbsEq, AbsOrd};
use dashu_float::round::mode;
use dashu_float::{Context, FBig};
use dashu_int::{IBig, UBig, Word};
use dashu_ratio::{RBig, Relaxed};
use dashu_verif_harness::common::*;
use dashu_verif_harness::dispatch_base;
use dashu_verif_harness::forms::*;
use dashu_verif_harness::fwire::*;
use num_order::{NumHash, NumOrd};
use serde_json::{json, Value};
use std::cmp::Ordering;
use std::collections::hash_map::DefaultHasher;
use std::hash::Hasher;

type HE = mode::HalfEven;
#[allow(deprecated)]
#[derive(Clone)]
enum V {
    U(UBig), I(IBig), R(RBig), RX(Relaxed),
    F2(FBig<HE, 2>), F3(FBig<HE, 3>), F8(FBig<HE, 8>), F10(FBig<HE, 10>), F16(FBig<HE, 16>), F36(FBig<HE, 36>),
    U8(u8), U16(u16), U32(u32), U64(u64), U128(u128), Usize(usize),
    I8(i8), I16(i16), I32(i32), I64(i64), I128(i128), Isize(isize),
    F32(f32), F64(f64),
}

fn ordname(o: Ordering) -> &'static str {
    match o {
        Ordering::Less => "Less",
        Ordering::Equal => "Equal",
        Ordering::Greater => "Greater",
    }
}
struct Num {
    pcmp: String,
    cmp: String,
    eq: String,
}
fn obs_num<A: NumOrd<B>, B>(a: &A, b: &B) -> Num {
    let p = guarded(|| a.num_partial_cmp(b));
    let pcmp = match &p {
        Ok(Some(o)) => ordname(*o),
        Ok(None) => "None",
        Err(_) => "panic",
    };
    let cmp = if let Ok(Some(_)) = p {
        match guarded(|| a.num_cmp(b)) {
            Ok(o) => ordname(o),
            Err(_) => "panic",
        }
    } else {
        "na"
    };
    let eq = match guarded(|| a.num_eq(b)) {
        Ok(true) => "true",
        Ok(false) => "false",
        Err(_) => "panic",
    };
    Num { pcmp: pcmp.into(), cmp: cmp.into(), eq: eq.into() }
}
fn obs_abs<A: AbsOrd<B>, B>(a: &A, b: &B) -> String {
    match guarded(|| a.abs_cmp(b)) {
        Ok(o) => ordname(o).into(),
        Err(_) => "panic".into(),
    }
}
#[allow(deprecated)]
fn obs_abseq<A: AbsEq<B>, B>(a: &A, b: &B) -> String {
    match guarded(|| a.abs_eq(b)) {
        Ok(true) => "true".into(),
        Ok(false) => "false".into(),
        Err(_) => "panic".into(),
    }
}
fn nh<T: NumHash>(x: &T) -> Option<u64> {
    guarded(|| {
        let mut s = DefaultHasher::new();
        x.num_hash(&mut s);
        s.finish()
    })
    .ok()
}
fn num_hash(v: &V) -> Option<u64> {
    match v {
        V::U(x) => nh(x), V::I(x) => nh(x), V::R(x) => nh(x), V::RX(x) => nh(x),
        V::F2(x) => nh(x), V::F3(x) => nh(x), V::F8(x) => nh(x), V::F10(x) => nh(x), V::F16(x) => nh(x), V::F36(x) => nh(x),
        V::U8(x) => nh(x), V::U16(x) => nh(x), V::U32(x) => nh(x), V::U64(x) => nh(x), V::U128(x) => nh(x), V::Usize(x) => nh(x),
        V::I8(x) => nh(x), V::I16(x) => nh(x), V::I32(x) => nh(x), V::I64(x) => nh(x), V::I128(x) => nh(x), V::Isize(x) => nh(x),
        V::F32(x) => nh(x), V::F64(x) => nh(x),
    }
}

/// `on!(other; f(a, _); Var, Var, ...)`: apply `f(a, y)` when `other` is one of the listed variants
macro_rules! on {
    ($other:expr; $f:ident($a:expr); $($Var:ident),*) => {
        match $other { $( V::$Var(y) => Some($f($a, y)), )* _ => None }
    };
}
macro_rules! num_bigs_prims_floats {
    ($a:expr, $b:expr) => {
        on!($b; obs_num($a); U, I, R, RX, F2, F3, F8, F10, F16, F36, U8, U16, U32, U64, U128, Usize, I8, I16, I32, I64, I128, Isize, F32, F64)
    };
}
fn vs_num(a: &V, b: &V) -> Option<Num> {
    match a {
        V::U(x) => num_bigs_prims_floats!(x, b),
        V::I(x) => num_bigs_prims_floats!(x, b),
        V::F2(x) => num_bigs_prims_floats!(x, b),
        V::F3(x) => num_bigs_prims_floats!(x, b),
        V::F8(x) => num_bigs_prims_floats!(x, b),
        V::F10(x) => num_bigs_prims_floats!(x, b),
        V::F16(x) => num_bigs_prims_floats!(x, b),
        V::F36(x) => num_bigs_prims_floats!(x, b),
        // NumOrd between the two rational types, but not of a rational type with itself
        V::R(x) => on!(b; obs_num(x); U, I, RX, F2, F3, F8, F10, F16, F36, U8, U16, U32, U64, U128, Usize, I8, I16, I32, I64, I128, Isize, F32, F64),
        V::RX(x) => on!(b; obs_num(x); U, I, R, F2, F3, F8, F10, F16, F36, U8, U16, U32, U64, U128, Usize, I8, I16, I32, I64, I128, Isize, F32, F64),
        V::U8(x) => on!(b; obs_num(x); U, I, R, RX, F2, F3, F8, F10, F16, F36),
        V::U16(x) => on!(b; obs_num(x); U, I, R, RX, F2, F3, F8, F10, F16, F36),
        V::U32(x) => on!(b; obs_num(x); U, I, R, RX, F2, F3, F8, F10, F16, F36),
        V::U64(x) => on!(b; obs_num(x); U, I, R, RX, F2, F3, F8, F10, F16, F36),
        V::U128(x) => on!(b; obs_num(x); U, I, R, RX, F2, F3, F8, F10, F16, F36),
        V::Usize(x) => on!(b; obs_num(x); U, I, R, RX, F2, F3, F8, F10, F16, F36),
        V::I8(x) => on!(b; obs_num(x); U, I, R, RX, F2, F3, F8, F10, F16, F36),
        V::I16(x) => on!(b; obs_num(x); U, I, R, RX, F2, F3, F8, F10, F16, F36),
        V::I32(x) => on!(b; obs_num(x); U, I, R, RX, F2, F3, F8, F10, F16, F36),
        V::I64(x) => on!(b; obs_num(x); U, I, R, RX, F2, F3, F8, F10, F16, F36),
        V::I128(x) => on!(b; obs_num(x); U, I, R, RX, F2, F3, F8, F10, F16, F36),
        V::Isize(x) => on!(b; obs_num(x); U, I, R, RX, F2, F3, F8, F10, F16, F36),
        V::F32(x) => on!(b; obs_num(x); U, I, R, RX, F2, F3, F8, F10, F16, F36),
        V::F64(x) => on!(b; obs_num(x); U, I, R, RX, F2, F3, F8, F10, F16, F36),
    }
}
fn vs_abs(a: &V, b: &V) -> Option<String> {
    match a {
        V::U(x) => on!(b; obs_abs(x); U, I, R, RX, F2, F3, F8, F10, F16, F36),
        V::I(x) => on!(b; obs_abs(x); U, I, R, RX, F2, F3, F8, F10, F16, F36),
        V::R(x) => on!(b; obs_abs(x); U, I, R, RX, F2, F3, F8, F10, F16, F36),
        V::RX(x) => on!(b; obs_abs(x); U, I, R, RX, F2, F3, F8, F10, F16, F36),
        // floats: same base only
        V::F2(x) => on!(b; obs_abs(x); U, I, R, RX, F2),
        V::F3(x) => on!(b; obs_abs(x); U, I, R, RX, F3),
        V::F8(x) => on!(b; obs_abs(x); U, I, R, RX, F8),
        V::F10(x) => on!(b; obs_abs(x); U, I, R, RX, F10),
        V::F16(x) => on!(b; obs_abs(x); U, I, R, RX, F16),
        V::F36(x) => on!(b; obs_abs(x); U, I, R, RX, F36),
        _ => None,
    }
}
fn vs_abseq(a: &V, b: &V) -> Option<String> {
    match a {
        V::U(x) => on!(b; obs_abseq(x); U, I),
        V::I(x) => on!(b; obs_abseq(x); U, I),
        V::R(x) => on!(b; obs_abseq(x); R),
        V::RX(x) => on!(b; obs_abseq(x); RX),
        _ => None,
    }
}

// ------------------------------------------------------------------ wire
fn small_u(v: &Value) -> u128 {
    let m: Vec<u8> = v["m"].as_array().unwrap().iter().map(|b| b.as_u64().unwrap() as u8).collect();
    small_mag(&m).expect("primitive wider than 128 bits")
}
fn small_i(v: &Value) -> i128 {
    let m: Vec<u8> = v["m"].as_array().unwrap().iter().map(|b| b.as_u64().unwrap() as u8).collect();
    small_signed(v["s"].as_i64().unwrap_or(0) == 1, &m).expect("primitive outside i128")
}
fn fbig_of<const B: Word>(v: &Value) -> FBig<HE, B> {
    let repr = dec_repr::<B>(&v["f"]);
    if repr.is_infinite() {
        return FBig::from_repr(repr, Context::new(0));
    }
    let prec = v["f"]["prec"].as_u64().unwrap_or(0) as usize;
    let digits = repr.digits().max(1);
    FBig::from_repr(repr, Context::new(if prec == 0 { digits } else { prec.max(digits) }))
}
fn dec_v(v: &Value) -> Option<V> {
    let t = v["t"].as_str()?;
    Some(match t {
        "U" => V::U(dec_u(&v["i"])),
        "I" => V::I(dec_i(&v["i"])),
        "R" => V::R(dec_r(v)),
        "RX" => V::RX(dec_rx(v)),
        "F" => match v["base"].as_u64()? {
            2 => V::F2(fbig_of::<2>(v)), 3 => V::F3(fbig_of::<3>(v)), 8 => V::F8(fbig_of::<8>(v)),
            10 => V::F10(fbig_of::<10>(v)), 16 => V::F16(fbig_of::<16>(v)), 36 => V::F36(fbig_of::<36>(v)),
            _ => return None,
        },
        "u8" => V::U8(small_u(&v["i"]) as u8), "u16" => V::U16(small_u(&v["i"]) as u16), "u32" => V::U32(small_u(&v["i"]) as u32),
        "u64" => V::U64(small_u(&v["i"]) as u64), "u128" => V::U128(small_u(&v["i"])), "usize" => V::Usize(small_u(&v["i"]) as usize),
        "i8" => V::I8(small_i(&v["i"]) as i8), "i16" => V::I16(small_i(&v["i"]) as i16), "i32" => V::I32(small_i(&v["i"]) as i32),
        "i64" => V::I64(small_i(&v["i"]) as i64), "i128" => V::I128(small_i(&v["i"])), "isize" => V::Isize(small_i(&v["i"]) as isize),
        "f32" => {
            let b = v["b"].as_array()?;
            V::F32(f32::from_bits((b[0].as_u64()? as u32) | ((b[1].as_u64()? as u32) << 16)))
        }
        "f64" => {
            let b = v["b"].as_array()?;
            let w = |i: usize| b[i].as_u64().unwrap();
            V::F64(f64::from_bits(w(0) | (w(1) << 16) | (w(2) << 32) | (w(3) << 48)))
        }
        _ => return None,
    })
}
fn enc_sm(neg: bool, mag: u128) -> Value {
    let mut b = mag.to_le_bytes().to_vec();
    while b.last() == Some(&0) {
        b.pop();
    }
    json!({"s": if neg && !b.is_empty() { 1 } else { 0 }, "m": b})
}
fn tv_f<const B: Word>(f: &FBig<HE, B>) -> Value {
    json!({"t": "F", "base": B, "f": enc_f(f)})
}
fn tv_of(v: &V) -> Value {
    macro_rules! pu { ($t:expr, $x:expr) => { json!({"t": $t, "i": enc_sm(false, *$x as u128)}) }; }
    macro_rules! pi { ($t:expr, $x:expr) => { json!({"t": $t, "i": enc_sm(*$x < 0, $x.unsigned_abs() as u128)}) }; }
    match v {
        V::U(x) => json!({"t": "U", "i": enc_u(x)}),
        V::I(x) => json!({"t": "I", "i": enc_i(x)}),
        V::R(x) => json!({"t": "R", "num": enc_i(x.numerator()), "den": enc_u(x.denominator())}),
        V::RX(x) => json!({"t": "RX", "num": enc_i(x.numerator()), "den": enc_u(x.denominator())}),
        V::F2(x) => tv_f(x), V::F3(x) => tv_f(x), V::F8(x) => tv_f(x), V::F10(x) => tv_f(x), V::F16(x) => tv_f(x), V::F36(x) => tv_f(x),
        V::U8(x) => pu!("u8", x), V::U16(x) => pu!("u16", x), V::U32(x) => pu!("u32", x), V::U64(x) => pu!("u64", x),
        V::U128(x) => pu!("u128", x), V::Usize(x) => pu!("usize", x),
        V::I8(x) => pi!("i8", x), V::I16(x) => pi!("i16", x), V::I32(x) => pi!("i32", x), V::I64(x) => pi!("i64", x),
        V::I128(x) => pi!("i128", x), V::Isize(x) => pi!("isize", x),
        V::F32(x) => { let b = x.to_bits(); json!({"t": "f32", "b": [b & 0xffff, b >> 16]}) }
        V::F64(x) => { let b = x.to_bits(); json!({"t": "f64", "b": [b & 0xffff, (b >> 16) & 0xffff, (b >> 32) & 0xffff, b >> 48]}) }
    }
}

fn run_pair(log: &mut Log, a: &V, b: &V, ha: Option<u64>, hb: Option<u64>, src: &str, cls: (&Value, &Value)) {
    let num = vs_num(a, b);
    let abs = vs_abs(a, b);
    let abseq = vs_abseq(a, b);
    if num.is_none() && abs.is_none() && abseq.is_none() {
        return;
    }
    let na = || "na".to_string();
    let (pcmp, cmp, eq) = match num {
        Some(n) => (n.pcmp, n.cmp, n.eq),
        None => (na(), na(), na()),
    };
    let heq = match (ha, hb) {
        (Some(x), Some(y)) => (if x == y { "true" } else { "false" }).to_string(),
        _ => "panic".to_string(),
    };
    log.ev(json!({"prop": "C14", "op": "pair", "src": src, "a": tv_of(a), "b": tv_of(b), "ca": cls.0, "cb": cls.1,
        "o": {"pcmp": pcmp, "cmp": cmp, "eq": eq, "abs_cmp": abs.unwrap_or_else(na), "abs_eq": abseq.unwrap_or_else(na), "heq": heq}}));
}

fn run_pool(log: &mut Log, pool: &[(V, Value)], src: &str) {
    let hashes: Vec<Option<u64>> = pool.iter().map(|v| num_hash(&v.0)).collect();
    for (i, a) in pool.iter().enumerate() {
        for (j, b) in pool.iter().enumerate() {
            run_pair(log, &a.0, &b.0, hashes[i], hashes[j], src, (&a.1, &b.1));
        }
    }
}

// ------------------------------------------------------------------ seeded random pools
/// one exact value rendered in several types (raw constructors and primitive casts only), plus
/// last-bit neighbours
fn random_cluster(rng: &mut Rng, out: &mut Vec<(V, Value)>) {
    let cls = json!("rnd");
    let mut push = |v: V| out.push((v, cls.clone()));
    match rng.below(4) {
        0 | 1 => {
            // an integer, small or wide
            let nbytes = match rng.below(4) { 0 => rng.below(3), 1 => rng.below(9), 2 => rng.below(17), _ => rng.below(60) } as usize;
            let pat = if rng.coin() { 0 } else { rng.next() };
            let mag = ubig_from_bytes(&pattern_bytes(rng, nbytes, pat));
            let neg = rng.coin();
            for d in 0..3u8 {
                // v, v + 1, v + 2: neighbours differing in the last bit
                let m = &mag + UBig::from(d);
                let bytes = words_to_bytes(m.as_words());
                let i = ibig_from_parts(neg, &bytes);
                if !neg {
                    push(V::U(m.clone()));
                }
                push(V::I(i.clone()));
                if d == 0 || rng.coin() {
                    push(V::R(RBig::from_parts(i.clone(), UBig::ONE)));
                    let k = UBig::from(2u8 + rng.below(5) as u8);
                    push(V::RX(Relaxed::from_parts(&i * IBig::from(k.clone()), k)));
                    match rng.below(6) {
                        0 => push(V::F2(FBig::from_parts(i.clone(), 0))),
                        1 => push(V::F3(FBig::from_parts(i.clone(), 0))),
                        2 => push(V::F8(FBig::from_parts(i.clone(), 0))),
                        3 => push(V::F10(FBig::from_parts(i.clone(), 0))),
                        4 => push(V::F16(FBig::from_parts(i.clone(), 0))),
                        _ => push(V::F36(FBig::from_parts(i.clone(), 0))),
                    }
                }
                if let Some(s) = small_signed(neg, &bytes) {
                    push(V::I128(s));
                    if s >= i64::MIN as i128 && s <= i64::MAX as i128 { push(V::I64(s as i64)); push(V::Isize(s as isize)); }
                    if s >= i32::MIN as i128 && s <= i32::MAX as i128 { push(V::I32(s as i32)); }
                    if s >= i16::MIN as i128 && s <= i16::MAX as i128 { push(V::I16(s as i16)); }
                    if s >= i8::MIN as i128 && s <= i8::MAX as i128 { push(V::I8(s as i8)); }
                    if s.unsigned_abs() < (1 << 53) { push(V::F64(s as f64)); }
                    if s.unsigned_abs() < (1 << 24) { push(V::F32(s as f32)); }
                }
                if !neg {
                    if let Some(u) = small_mag(&bytes) {
                        push(V::U128(u));
                        if u <= u64::MAX as u128 { push(V::U64(u as u64)); push(V::Usize(u as usize)); }
                        if u <= u32::MAX as u128 { push(V::U32(u as u32)); }
                        if u <= u16::MAX as u128 { push(V::U16(u as u16)); }
                        if u <= u8::MAX as u128 { push(V::U8(u as u8)); }
                    }
                }
            }
        }
        2 => {
            // a dyadic value m * 2^e with m < 2^53 (f64 holds it exactly), e in -60..60
            let m = (rng.next() >> (11 + rng.below(50))) as i64;
            let m = if rng.coin() { -m } else { m };
            let e = rng.range(-60, 60) as i32;
            let f = (m as f64) * 2f64.powi(e);
            for bits in [f.to_bits(), f.to_bits().wrapping_add(1), f.to_bits().wrapping_sub(1)] {
                push(V::F64(f64::from_bits(bits)));
            }
            push(V::F2(FBig::from_parts(IBig::from(m), e as isize)));
            push(V::F2(FBig::from_parts(IBig::from(m) + IBig::ONE, e as isize)));
            if e % 4 == 0 {
                push(V::F16(FBig::from_parts(IBig::from(m), (e / 4) as isize)));
            }
            let (num, den) = if e >= 0 { (IBig::from(m) << e as usize, UBig::ONE) } else { (IBig::from(m), UBig::ONE << (-e) as usize) };
            push(V::R(RBig::from_parts(num.clone(), den.clone())));
            push(V::RX(Relaxed::from_parts(num * IBig::from(6), den * UBig::from(6u8))));
            if (m.unsigned_abs() >> 24) == 0 {
                let g = (m as f32) * 2f32.powi(e);
                push(V::F32(g));
                push(V::F32(f32::from_bits(g.to_bits().wrapping_add(1))));
            }
        }
        _ => {
            // sig * B^e in a random base, as a float and as the same rational
            let nb = rng.below(12) as usize;
            let sneg = rng.coin();
            let sig = ibig_from_parts(sneg, &pattern_bytes(rng, nb, 0));
            let e = rng.range(-30, 30) as isize;
            let base = *rng.pick(BASES);
            let pw = UBig::from(base).pow(e.unsigned_abs());
            let (num, den) = if e >= 0 { (&sig * IBig::from(pw), UBig::ONE) } else { (sig.clone(), pw) };
            push(V::R(RBig::from_parts(num.clone(), den.clone())));
            push(V::RX(Relaxed::from_parts(num, den)));
            dispatch_base!(base, B => {
                let f = FBig::<HE, B>::from_parts(sig.clone(), e);
                let g = FBig::<HE, B>::from_parts(&sig + IBig::ONE, e);
                let v = tv_f(&f);
                let w = tv_f(&g);
                push(dec_v(&v).unwrap());
                push(dec_v(&w).unwrap());
            });
        }
    }
}

fn main() {
    let args = &start();
    let mut log = Log::create(&args.out);
    let mut rng = Rng::new(args.seed);
    if let Some(path) = &args.cases {
        let mut pool: Vec<(V, Value)> = Vec::new();
        for c in read_cases(path) {
            match c["op"].as_str().unwrap_or("") {
                "val" => {
                    if let Some(v) = dec_v(&c["v"]) {
                        pool.push((v, c["cls"].clone()));
                    }
                }
                "pair" => {
                    // replay of one recorded pair
                    if let (Some(a), Some(b)) = (dec_v(&c["a"]), dec_v(&c["b"])) {
                        let src = c["src"].as_str().unwrap_or("gen").to_string();
                        run_pair(&mut log, &a, &b, num_hash(&a), num_hash(&b), &src, (&c["ca"], &c["cb"]));
                    }
                }
                _ => {}
            }
        }
        run_pool(&mut log, &pool, "gen");
    }
    // random pools: args.n = number of clusters; pools of a few clusters each, all ordered pairs inside
    let mut left = args.n;
    while left > 0 {
        let mut pool = Vec::new();
        for _ in 0..left.min(3) {
            random_cluster(&mut rng, &mut pool);
        }
        left -= left.min(3);
        // specials in every random pool
        for v in [V::F64(f64::NAN), V::F32(f32::INFINITY), V::F64(-0.0), V::U(UBig::ZERO), V::F10(FBig::ZERO), V::R(RBig::ZERO)] {
            if rng.below(3) == 0 {
                pool.push((v, json!("special")));
            }
        }
        run_pool(&mut log, &pool, "rnd");
    }
    let n = log.finish();
    eprintln!("c14: {} events", n);
}
