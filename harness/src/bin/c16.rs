//! C16: operations terminate and panic only where the documentation says so.
//!
//! The harness contains no oracle: it decodes one case (operation name + argument values), makes
//! the call, and records what happened: a value, an `Err`, a panic (message), a timeout or an
//! abnormal process end.  Whether that outcome is allowed is decided by the TLC monitor
//! (spec/C16/Trace_C16.tla, definition layer PanicDef.tla).
//!
//! Process structure
//!   c16 --cases F --out T --build B     supervisor: cells flagged `iso` are executed ONE call per
//!                                       forked child (`c16 worker`, memory-capped through
//!                                       `ulimit -v`, killed by a watchdog after the budget,
//!                                       re-run once before a timeout / abort is believed);
//!                                       the other cells run in a `c16 batch` child that executes
//!                                       them in-process under catch_unwind and is restarted behind
//!                                       the cell it was executing when it hangs or dies (that
//!                                       cell is then re-run isolated).
//!   c16 worker                          reads one case (JSON) on stdin, prints one outcome line
//!   c16 batch --cases F --from I        prints "S i" / "D i {outcome}" lines
//!   c16 --inventory                     dumps the operation table (compared with the spec)
//!   c16 --seed S --n N                  seeded fuzz cases (parser strings, random edge tuples)
use dashu_base::{
    Abs, Approximation, BitTest, CubicRoot, DivEuclid, DivRem, DivRemAssign, DivRemEuclid, EstimatedLog2,
    ExtendedGcd, Gcd, Inverse, PowerOfTwo, RemEuclid, SquareRoot, SquareRootRem,
};
use dashu_float::round::mode::{HalfAway, Zero};
use dashu_float::round::Round;
use dashu_float::{Context, DBig, FBig, Repr};
use dashu_int::fast_div::ConstDivisor;
use dashu_int::{IBig, UBig, Word};
use dashu_ratio::{RBig, Relaxed};
use dashu_verif_harness::common::*;
use dashu_verif_harness::forms::small_signed;
use serde_json::{json, Value};
use std::io::{BufRead, Read, Write};
use std::process::{Command, Stdio};
use std::str::FromStr;
use std::sync::{mpsc, Arc, Mutex};
use std::time::{Duration, Instant};

// ------------------------------------------------------------------------------------------------
// outcome of the call itself (a panic is caught one level up)
enum Out {
    Ok(String),
    Err(String),
}

trait Brief {
    fn brief(&self) -> String;
}
impl Brief for UBig {
    fn brief(&self) -> String {
        format!("U{}b", self.bit_len())
    }
}
impl Brief for IBig {
    fn brief(&self) -> String {
        format!("I{}{}b", if *self < IBig::ZERO { "-" } else { "" }, self.bit_len())
    }
}
impl<R: Round, const B: Word> Brief for FBig<R, B> {
    fn brief(&self) -> String {
        if self.repr().is_infinite() {
            "Finf".to_string()
        } else {
            format!("F{}b@{}p{}", self.repr().significand().bit_len(), self.repr().exponent(), self.precision())
        }
    }
}
impl Brief for RBig {
    fn brief(&self) -> String {
        format!("R{}/{}", self.numerator().bit_len(), self.denominator().bit_len())
    }
}
impl Brief for Relaxed {
    fn brief(&self) -> String {
        format!("X{}/{}", self.numerator().bit_len(), self.denominator().bit_len())
    }
}
impl Brief for String {
    fn brief(&self) -> String {
        format!("str{}", self.len())
    }
}
impl Brief for Box<[u8]> {
    fn brief(&self) -> String {
        format!("bytes{}", self.len())
    }
}
impl Brief for Box<[UBig]> {
    fn brief(&self) -> String {
        format!("chunks{}", self.len())
    }
}
macro_rules! brief_debug {
    ($($t:ty)*) => {$(impl Brief for $t { fn brief(&self) -> String { format!("{:?}", self) } })*};
}
brief_debug!(bool u8 u16 u32 u64 u128 usize i8 i16 i32 i64 i128 isize f32 f64 std::cmp::Ordering dashu_base::Sign
    dashu_float::round::Rounding);
impl<T: Brief> Brief for Option<T> {
    fn brief(&self) -> String {
        match self {
            Some(v) => format!("Some({})", v.brief()),
            None => "None".to_string(),
        }
    }
}
impl<A: Brief, B: Brief> Brief for (A, B) {
    fn brief(&self) -> String {
        format!("({},{})", self.0.brief(), self.1.brief())
    }
}
impl<A: Brief, B: Brief, C: Brief> Brief for (A, B, C) {
    fn brief(&self) -> String {
        format!("({},{},{})", self.0.brief(), self.1.brief(), self.2.brief())
    }
}
impl<T: Brief, E: Brief> Brief for Approximation<T, E> {
    fn brief(&self) -> String {
        match self {
            Approximation::Exact(v) => format!("Exact({})", v.brief()),
            Approximation::Inexact(v, e) => format!("Inexact({},{})", v.brief(), e.brief()),
        }
    }
}
fn ok<T: Brief>(v: T) -> Out {
    Out::Ok(v.brief())
}
fn res<T: Brief, E: std::fmt::Debug>(r: Result<T, E>) -> Out {
    match r {
        Ok(v) => Out::Ok(v.brief()),
        Err(e) => Out::Err(format!("{:?}", e)),
    }
}

// ------------------------------------------------------------------------------------------------
// argument decoding (a malformed case is a harness error, reported as outcome kind "badcase")
fn bad(msg: &str) -> ! {
    panic!("badcase: {}", msg)
}
fn au(a: &Value) -> UBig {
    if a["v"]["s"].as_i64().unwrap_or(0) == 1 && a["v"]["m"].as_array().map(|m| !m.is_empty()).unwrap_or(false) {
        bad("negative value for an unsigned slot")
    }
    dec_u(&a["v"])
}
fn ai(a: &Value) -> IBig {
    dec_i(&a["v"])
}
fn int_i128(v: &Value) -> i128 {
    let neg = v["s"].as_i64().unwrap_or(0) == 1;
    let bytes: Vec<u8> = v["m"].as_array().map(|a| a.iter().map(|b| b.as_u64().unwrap() as u8).collect()).unwrap_or_default();
    small_signed(neg, &bytes).unwrap_or_else(|| bad("machine integer does not fit i128"))
}
fn an_usize(a: &Value) -> usize {
    let v = int_i128(&a["v"]);
    if v < 0 || v > usize::MAX as i128 {
        bad("usize out of range")
    }
    v as usize
}
fn an_isize(a: &Value) -> isize {
    let v = int_i128(&a["v"]);
    if v < isize::MIN as i128 || v > isize::MAX as i128 {
        bad("isize out of range")
    }
    v as isize
}
fn an_u32(a: &Value) -> u32 {
    let v = int_i128(&a["v"]);
    if v < 0 || v > u32::MAX as i128 {
        bad("u32 out of range")
    }
    v as u32
}
fn af<R: Round, const B: Word>(a: &Value) -> FBig<R, B> {
    if a["b"].as_u64() != Some(B as u64) {
        bad("float base mismatch")
    }
    let prec = {
        let v = int_i128(&a["prec"]);
        if v < 0 || v > usize::MAX as i128 {
            bad("precision out of range")
        }
        v as usize
    };
    let repr = match a["inf"].as_i64().unwrap_or(0) {
        1 => Repr::<B>::infinity(),
        -1 => Repr::<B>::neg_infinity(),
        _ => {
            let e = int_i128(&a["exp"]);
            if e < isize::MIN as i128 || e > isize::MAX as i128 {
                bad("exponent out of range")
            }
            Repr::<B>::new(dec_i(&a["sig"]), e as isize)
        }
    };
    FBig::from_repr(repr, Context::<R>::new(prec))
}
fn ar(a: &Value) -> RBig {
    RBig::from_parts(dec_i(&a["num"]), dec_u(&a["den"]))
}
fn ax(a: &Value) -> Relaxed {
    Relaxed::from_parts(dec_i(&a["num"]), dec_u(&a["den"]))
}
fn ad(a: &Value) -> f64 {
    match a["c"].as_str().unwrap_or("") {
        "nan" => f64::NAN,
        "inf" => f64::INFINITY,
        "-inf" => f64::NEG_INFINITY,
        "0" => 0.0,
        "-0" => -0.0,
        "1" => 1.0,
        "0.1" => 0.1,
        "-2.5" => -2.5,
        "minpos" => f64::from_bits(1),
        "max" => f64::MAX,
        "-max" => f64::MIN,
        "2^100" => 1267650600228229401496703205376.0,
        other => bad(&format!("unknown f64 class {}", other)),
    }
}
fn astr(a: &Value) -> String {
    let mut bytes: Vec<u8> = Vec::new();
    for p in a["p"].as_array().unwrap_or_else(|| bad("string pieces")) {
        let b: Vec<u8> = p["b"].as_array().unwrap().iter().map(|x| x.as_u64().unwrap() as u8).collect();
        let n = p["n"].as_u64().unwrap_or(1) as usize;
        if n.saturating_mul(b.len()) > 64 << 20 {
            bad("string too long")
        }
        for _ in 0..n {
            bytes.extend_from_slice(&b);
        }
    }
    String::from_utf8(bytes).unwrap_or_else(|_| bad("string is not UTF-8"))
}
fn atag(a: &Value) -> &str {
    a["c"].as_str().unwrap_or_else(|| bad("tag argument"))
}

macro_rules! prim_dispatch {
    ($arg:expr, [$($t:ident),*], $p:ident => $body:expr) => {{
        let v = int_i128(&$arg["v"]);
        match $arg["t"].as_str().unwrap_or("") {
            $( stringify!($t) => {
                if v < <$t>::MIN as i128 || (v > 0 && v as u128 > <$t>::MAX as u128) { bad("primitive out of range") }
                let $p: $t = v as $t; $body
            } )*
            other => bad(&format!("primitive type {}", other)),
        }
    }};
}
macro_rules! uprim {
    ($arg:expr, $p:ident => $body:expr) => { prim_dispatch!($arg, [u8, u16, u32, u64, u128, usize], $p => $body) };
}
macro_rules! aprim {
    ($arg:expr, $p:ident => $body:expr) => {
        prim_dispatch!($arg, [u8, u16, u32, u64, u128, usize, i8, i16, i32, i64, i128, isize], $p => $body)
    };
}
/// the four ownership forms of a binary operator with a primitive right operand
macro_rules! forms4 {
    ($form:expr, $x:expr, $p:expr, $op:tt) => {
        match $form {
            "vv" => ok($x.clone() $op $p),
            "rv" => ok(&$x $op $p),
            "vr" => ok($x.clone() $op &$p),
            "rr" => ok(&$x $op &$p),
            other => bad(&format!("form {}", other)),
        }
    };
}
macro_rules! forms4m {
    ($form:expr, $x:expr, $p:expr, $m:ident) => {
        match $form {
            "vv" => ok($x.clone().$m($p)),
            "rv" => ok((&$x).$m($p)),
            "vr" => ok($x.clone().$m(&$p)),
            "rr" => ok((&$x).$m(&$p)),
            other => bad(&format!("form {}", other)),
        }
    };
}

// ------------------------------------------------------------------------------------------------
// the operation table
const INT_OPS: &[(&str, usize)] = &[
    ("U.add", 2), ("U.sub", 2), ("U.mul", 2), ("U.div", 2), ("U.rem", 2), ("U.div_rem", 2), ("U.div_euclid", 2),
    ("U.rem_euclid", 2), ("U.div_rem_euclid", 2), ("U.is_multiple_of", 2),
    ("I.add", 2), ("I.sub", 2), ("I.mul", 2), ("I.div", 2), ("I.rem", 2), ("I.div_rem", 2), ("I.div_euclid", 2),
    ("I.rem_euclid", 2), ("I.div_rem_euclid", 2), ("I.is_multiple_of", 2),
    ("U.div.prim", 2), ("U.rem.prim", 2), ("U.div_rem.prim", 2), ("U.div_rem_assign.prim", 2),
    ("I.div.prim", 3), ("I.rem.prim", 3), ("I.div_rem.prim", 3), ("I.div_rem_assign.prim", 3),
    ("U.add.prim", 2), ("U.sub.prim", 2), ("prim.sub.U", 2), ("U.mul.prim", 2),
    ("I.add.prim", 2), ("I.sub.prim", 2), ("prim.sub.I", 2), ("prim.div.I", 2), ("I.mul.prim", 2), ("I.and.prim", 2),
    ("U.gcd", 2), ("U.gcd_ext", 2), ("I.gcd", 2), ("I.gcd_ext", 2),
    ("U.sqrt", 1), ("U.sqrt_rem", 1), ("I.sqrt", 1), ("U.cbrt", 1), ("I.cbrt", 1), ("U.nth_root", 2), ("I.nth_root", 2),
    ("U.ilog", 2), ("I.ilog", 2), ("U.pow", 2), ("I.pow", 2), ("U.shl", 2), ("I.shl", 2), ("U.shr", 2), ("I.shr", 2),
    ("U.bit", 2), ("I.bit", 2), ("U.set_bit", 2), ("U.clear_bit", 2),
    ("U.split_bits", 2), ("U.clear_high_bits", 2), ("U.ones", 1), ("U.in_radix", 2), ("I.in_radix", 2), ("U.to_chunks", 2),
    ("U.to_string", 1), ("I.to_string", 1), ("U.fmt_hex", 1), ("I.fmt_hex", 1), ("U.to_f32", 1), ("U.to_f64", 1),
    ("I.to_f32", 1), ("I.to_f64", 1), ("U.to_le_bytes", 1), ("I.to_le_bytes", 1), ("U.try_from_I", 1), ("u8.try_from_U", 1),
    ("i64.try_from_I", 1), ("u128.try_from_I", 1), ("U.count_ones", 1), ("U.trailing_zeros", 1), ("I.trailing_zeros", 1),
    ("U.bit_len", 1), ("U.next_power_of_two", 1), ("U.is_power_of_two", 1), ("U.remove", 2), ("I.neg", 1), ("I.abs", 1),
    ("I.signum", 1), ("U.sqr", 1), ("I.sqr", 1), ("U.cubic", 1), ("I.cubic", 1), ("I.not", 1), ("I.and", 2), ("I.or", 2),
    ("I.xor", 2), ("U.cmp", 2), ("I.cmp", 2), ("U.log2_bounds", 1), ("I.log2_bounds", 1),
    ("M.new", 1), ("M.reduce", 2), ("M.add", 3), ("M.sub", 3), ("M.mul", 3), ("M.pow", 3), ("M.inv", 2), ("M.div", 3),
    ("M.sqr", 2), ("M.neg", 2), ("M.dbl", 2), ("M.cross_add", 2), ("M.cross_eq", 2),
];
const FLOAT_OPS: &[(&str, usize)] = &[
    ("add", 2), ("sub", 2), ("mul", 2), ("div", 2), ("rem", 2), ("div_euclid", 2), ("rem_euclid", 2), ("div_rem_euclid", 2),
    ("inv", 1), ("sqr", 1), ("cubic", 1), ("sqrt", 1), ("exp", 1), ("exp_m1", 1), ("ln", 1), ("ln_1p", 1), ("powi", 2),
    ("powf", 2), ("trunc", 1), ("fract", 1), ("ceil", 1), ("floor", 1), ("round", 1), ("split_at_point", 1), ("to_int", 1),
    ("shl", 2), ("shr", 2), ("shl_assign", 2), ("ulp", 1), ("neg", 1), ("abs", 1), ("cmp", 2), ("eq", 2), ("sign", 1),
    ("with_precision", 2), ("clone", 1), ("to_f32", 1), ("to_f64", 1), ("convert_base", 1), ("to_string", 1), ("debug", 1),
    ("into_ibig", 1),
    // the other call forms of the binary operators (each is a separate hand-written impl with its own precondition check)
    ("add.vv", 2), ("add.vr", 2), ("add.rv", 2), ("add.assign", 2), ("sub.vv", 2), ("sub.vr", 2), ("sub.rv", 2), ("sub.assign", 2),
    ("mul.vv", 2), ("mul.vr", 2), ("mul.rv", 2), ("mul.assign", 2), ("div.vv", 2), ("div.vr", 2), ("div.rv", 2), ("div.assign", 2),
];
const RAT_OPS: &[(&str, usize)] = &[
    ("R.from_parts", 2), ("R.from_parts_signed", 2), ("X.from_parts", 2), ("R.add", 2), ("R.sub", 2), ("R.mul", 2),
    ("R.div", 2), ("X.add", 2), ("X.mul", 2), ("X.div", 2), ("R.div.int", 2), ("R.mul.int", 2), ("R.inv", 1), ("X.inv", 1),
    ("R.pow", 2), ("R.sqr", 1), ("R.cubic", 1), ("R.trunc", 1), ("R.floor", 1), ("R.ceil", 1), ("R.round", 1), ("R.fract", 1),
    ("R.split_at_point", 1), ("R.to_f32", 1), ("R.to_f64", 1), ("R.to_f64_fast", 1), ("R.to_int", 1), ("R.neg", 1),
    ("R.abs", 1), ("R.cmp", 2), ("R.to_string", 1), ("X.canonicalize", 1), ("R.next_up", 2), ("R.next_down", 2),
    ("R.nearest", 2), ("R.simplest_in", 2), ("R.simplest_from_f64", 1), ("R.try_from_f64", 1), ("f64.try_from_R", 1),
    ("f32.try_from_R", 1), ("U.try_from_R", 1), ("I.try_from_R", 1), ("R.to_float2", 2), ("R.to_float10", 2),
    ("R.try_from_F2", 1), ("R.simplest_from_F10", 1),
];
const PARSE_OPS: &[&str] = &[
    "U.from_str", "I.from_str", "U.from_str_radix", "I.from_str_radix", "U.from_str_with_radix_prefix",
    "I.from_str_with_radix_prefix", "F2.from_str", "F10.from_str", "F16.from_str", "F8.from_str", "F3.from_str",
    "R.from_str", "X.from_str", "R.from_str_radix", "X.from_str_radix", "R.from_str_with_radix_prefix",
    "X.from_str_with_radix_prefix",
];

fn inventory() -> Value {
    let mut ops: Vec<Value> = Vec::new();
    for (n, a) in INT_OPS {
        ops.push(json!({"op": n, "arity": a}));
    }
    for b in ["F2", "F10"] {
        for (n, a) in FLOAT_OPS {
            ops.push(json!({"op": format!("{}.{}", b, n), "arity": a}));
        }
        if b == "F2" {
            ops.push(json!({"op": "F2.try_from_f64", "arity": 1}));
        }
    }
    for (n, a) in RAT_OPS {
        ops.push(json!({"op": n, "arity": a}));
    }
    json!({"ops": ops, "parsers": PARSE_OPS})
}

fn ring_of(a: &Value) -> ConstDivisor {
    let m = au(a);
    if m.is_zero() {
        bad("zero modulus outside M.new")
    }
    ConstDivisor::new(m)
}

fn exec_int(op: &str, a: &[Value]) -> Option<Out> {
    Some(match op {
        "U.add" => ok(au(&a[0]) + au(&a[1])),
        "U.sub" => ok(au(&a[0]) - au(&a[1])),
        "U.mul" => ok(au(&a[0]) * au(&a[1])),
        "U.div" => ok(au(&a[0]) / au(&a[1])),
        "U.rem" => ok(au(&a[0]) % au(&a[1])),
        "U.div_rem" => ok(au(&a[0]).div_rem(au(&a[1]))),
        "U.div_euclid" => ok(au(&a[0]).div_euclid(au(&a[1]))),
        "U.rem_euclid" => ok(au(&a[0]).rem_euclid(au(&a[1]))),
        "U.div_rem_euclid" => ok(au(&a[0]).div_rem_euclid(au(&a[1]))),
        "U.is_multiple_of" => ok(au(&a[0]).is_multiple_of(&au(&a[1]))),
        "I.add" => ok(ai(&a[0]) + ai(&a[1])),
        "I.sub" => ok(ai(&a[0]) - ai(&a[1])),
        "I.mul" => ok(ai(&a[0]) * ai(&a[1])),
        "I.div" => ok(ai(&a[0]) / ai(&a[1])),
        "I.rem" => ok(ai(&a[0]) % ai(&a[1])),
        "I.div_rem" => ok(ai(&a[0]).div_rem(ai(&a[1]))),
        "I.div_euclid" => ok(ai(&a[0]).div_euclid(ai(&a[1]))),
        "I.rem_euclid" => ok(ai(&a[0]).rem_euclid(ai(&a[1]))),
        "I.div_rem_euclid" => ok(ai(&a[0]).div_rem_euclid(ai(&a[1]))),
        "I.is_multiple_of" => ok(ai(&a[0]).is_multiple_of(&ai(&a[1]))),
        "U.div.prim" => {
            let x = au(&a[0]);
            uprim!(&a[1], p => ok(x / p))
        }
        "U.rem.prim" => {
            let x = au(&a[0]);
            uprim!(&a[1], p => ok(x % p))
        }
        "U.div_rem.prim" => {
            let x = au(&a[0]);
            uprim!(&a[1], p => ok(x.div_rem(p)))
        }
        "U.div_rem_assign.prim" => {
            let mut x = au(&a[0]);
            uprim!(&a[1], p => { let r = x.div_rem_assign(p); ok((x, r)) })
        }
        "I.div.prim" => {
            let x = ai(&a[0]);
            let f = atag(&a[2]);
            aprim!(&a[1], p => forms4!(f, x, p, /))
        }
        "I.rem.prim" => {
            let x = ai(&a[0]);
            let f = atag(&a[2]);
            aprim!(&a[1], p => forms4!(f, x, p, %))
        }
        "I.div_rem.prim" => {
            let x = ai(&a[0]);
            let f = atag(&a[2]);
            aprim!(&a[1], p => forms4m!(f, x, p, div_rem))
        }
        "I.div_rem_assign.prim" => {
            let mut x = ai(&a[0]);
            let f = atag(&a[2]);
            aprim!(&a[1], p => match f {
                "vv" | "rv" => { let r = x.div_rem_assign(p); ok((x, r)) }
                "vr" | "rr" => { let r = x.div_rem_assign(&p); ok((x, r)) }
                other => bad(&format!("form {}", other)),
            })
        }
        "U.add.prim" => {
            let x = au(&a[0]);
            uprim!(&a[1], p => ok(x + p))
        }
        "U.sub.prim" => {
            let x = au(&a[0]);
            uprim!(&a[1], p => ok(x - p))
        }
        "prim.sub.U" => {
            let x = au(&a[1]);
            uprim!(&a[0], p => ok(p - x))
        }
        "U.mul.prim" => {
            let x = au(&a[0]);
            uprim!(&a[1], p => ok(x * p))
        }
        "I.add.prim" => {
            let x = ai(&a[0]);
            aprim!(&a[1], p => ok(x + p))
        }
        "I.sub.prim" => {
            let x = ai(&a[0]);
            aprim!(&a[1], p => ok(x - p))
        }
        "prim.sub.I" => {
            let x = ai(&a[1]);
            aprim!(&a[0], p => ok(p - x))
        }
        "prim.div.I" => {
            let x = ai(&a[1]);
            aprim!(&a[0], p => ok(p / x))
        }
        "I.mul.prim" => {
            let x = ai(&a[0]);
            aprim!(&a[1], p => ok(x * p))
        }
        "I.and.prim" => {
            let x = ai(&a[0]);
            aprim!(&a[1], p => ok(x & p))
        }
        "U.gcd" => ok((&au(&a[0])).gcd(&au(&a[1]))),
        "U.gcd_ext" => ok((&au(&a[0])).gcd_ext(&au(&a[1]))),
        "I.gcd" => ok((&ai(&a[0])).gcd(&ai(&a[1]))),
        "I.gcd_ext" => ok((&ai(&a[0])).gcd_ext(&ai(&a[1]))),
        "U.sqrt" => ok(au(&a[0]).sqrt()),
        "U.sqrt_rem" => ok(au(&a[0]).sqrt_rem()),
        "I.sqrt" => ok(ai(&a[0]).sqrt()),
        "U.cbrt" => ok(au(&a[0]).cbrt()),
        "I.cbrt" => ok(ai(&a[0]).cbrt()),
        "U.nth_root" => ok(au(&a[0]).nth_root(an_usize(&a[1]))),
        "I.nth_root" => ok(ai(&a[0]).nth_root(an_usize(&a[1]))),
        "U.ilog" => ok(au(&a[0]).ilog(&au(&a[1]))),
        "I.ilog" => ok(ai(&a[0]).ilog(&au(&a[1]))),
        "U.pow" => ok(au(&a[0]).pow(an_usize(&a[1]))),
        "I.pow" => ok(ai(&a[0]).pow(an_usize(&a[1]))),
        "U.shl" => ok(au(&a[0]) << an_usize(&a[1])),
        "I.shl" => ok(ai(&a[0]) << an_usize(&a[1])),
        "U.shr" => ok(au(&a[0]) >> an_usize(&a[1])),
        "I.shr" => ok(ai(&a[0]) >> an_usize(&a[1])),
        "U.bit" => ok(au(&a[0]).bit(an_usize(&a[1]))),
        "I.bit" => ok(ai(&a[0]).bit(an_usize(&a[1]))),
        "U.set_bit" => {
            let mut x = au(&a[0]);
            x.set_bit(an_usize(&a[1]));
            ok(x)
        }
        "U.clear_bit" => {
            let mut x = au(&a[0]);
            x.clear_bit(an_usize(&a[1]));
            ok(x)
        }
        "U.split_bits" => ok(au(&a[0]).split_bits(an_usize(&a[1]))),
        "U.clear_high_bits" => {
            let mut x = au(&a[0]);
            x.clear_high_bits(an_usize(&a[1]));
            ok(x)
        }
        "U.ones" => ok(UBig::ones(an_usize(&a[0]))),
        "U.in_radix" => ok(au(&a[0]).in_radix(an_u32(&a[1])).to_string()),
        "I.in_radix" => ok(ai(&a[0]).in_radix(an_u32(&a[1])).to_string()),
        "U.to_chunks" => ok(au(&a[0]).to_chunks(an_usize(&a[1]))),
        "U.to_string" => ok(au(&a[0]).to_string()),
        "I.to_string" => ok(ai(&a[0]).to_string()),
        "U.fmt_hex" => ok(format!("{:#x}", au(&a[0]))),
        "I.fmt_hex" => ok(format!("{:#x}", ai(&a[0]))),
        "U.to_f32" => ok(au(&a[0]).to_f32()),
        "U.to_f64" => ok(au(&a[0]).to_f64()),
        "I.to_f32" => ok(ai(&a[0]).to_f32()),
        "I.to_f64" => ok(ai(&a[0]).to_f64()),
        "U.to_le_bytes" => ok(au(&a[0]).to_le_bytes()),
        "I.to_le_bytes" => ok(ai(&a[0]).to_le_bytes()),
        "U.try_from_I" => res(UBig::try_from(ai(&a[0]))),
        "u8.try_from_U" => res(u8::try_from(au(&a[0]))),
        "i64.try_from_I" => res(i64::try_from(ai(&a[0]))),
        "u128.try_from_I" => res(u128::try_from(ai(&a[0]))),
        "U.count_ones" => ok(au(&a[0]).count_ones()),
        "U.trailing_zeros" => ok(au(&a[0]).trailing_zeros()),
        "I.trailing_zeros" => ok(ai(&a[0]).trailing_zeros()),
        "U.bit_len" => ok(au(&a[0]).bit_len()),
        "U.next_power_of_two" => ok(au(&a[0]).next_power_of_two()),
        "U.is_power_of_two" => ok(au(&a[0]).is_power_of_two()),
        "U.remove" => {
            let mut x = au(&a[0]);
            let r = x.remove(&au(&a[1]));
            ok((x, r))
        }
        "I.neg" => ok(-ai(&a[0])),
        "I.abs" => ok(ai(&a[0]).abs()),
        "I.signum" => ok(ai(&a[0]).signum()),
        "U.sqr" => ok(au(&a[0]).sqr()),
        "I.sqr" => ok(ai(&a[0]).sqr()),
        "U.cubic" => ok(au(&a[0]).cubic()),
        "I.cubic" => ok(ai(&a[0]).cubic()),
        "I.not" => ok(!ai(&a[0])),
        "I.and" => ok(ai(&a[0]) & ai(&a[1])),
        "I.or" => ok(ai(&a[0]) | ai(&a[1])),
        "I.xor" => ok(ai(&a[0]) ^ ai(&a[1])),
        "U.cmp" => ok(au(&a[0]).cmp(&au(&a[1]))),
        "I.cmp" => ok(ai(&a[0]).cmp(&ai(&a[1]))),
        "U.log2_bounds" => ok(au(&a[0]).log2_bounds()),
        "I.log2_bounds" => ok(ai(&a[0]).log2_bounds()),
        "M.new" => {
            let r = ConstDivisor::new(au(&a[0]));
            ok(r.value())
        }
        "M.reduce" => {
            let ring = ring_of(&a[0]);
            let r = ring.reduce(ai(&a[1])).residue();
            ok(r)
        }
        "M.add" | "M.sub" | "M.mul" | "M.div" => {
            let ring = ring_of(&a[0]);
            let (x, y) = (ring.reduce(au(&a[1])), ring.reduce(au(&a[2])));
            let r = match op {
                "M.add" => x + y,
                "M.sub" => x - y,
                "M.mul" => x * y,
                _ => x / y,
            };
            ok(r.residue())
        }
        "M.pow" => {
            let ring = ring_of(&a[0]);
            let r = ring.reduce(au(&a[1])).pow(&au(&a[2])).residue();
            ok(r)
        }
        "M.inv" => {
            let ring = ring_of(&a[0]);
            let r = ring.reduce(au(&a[1])).inv().map(|v| v.residue());
            ok(r)
        }
        "M.sqr" => {
            let ring = ring_of(&a[0]);
            let r = ring.reduce(au(&a[1])).sqr().residue();
            ok(r)
        }
        "M.neg" => {
            let ring = ring_of(&a[0]);
            let r = (-ring.reduce(au(&a[1]))).residue();
            ok(r)
        }
        "M.dbl" => {
            let ring = ring_of(&a[0]);
            let r = ring.reduce(au(&a[1])).dbl().residue();
            ok(r)
        }
        "M.cross_add" => {
            let (r1, r2) = (ring_of(&a[0]), ring_of(&a[1]));
            let r = (r1.reduce(1u8) + r2.reduce(1u8)).residue();
            ok(r)
        }
        "M.cross_eq" => {
            let (r1, r2) = (ring_of(&a[0]), ring_of(&a[1]));
            let r = r1.reduce(1u8) == r2.reduce(1u8);
            ok(r)
        }
        _ => return None,
    })
}

fn exec_float<R: Round, const B: Word>(name: &str, a: &[Value]) -> Option<Out> {
    let x: FBig<R, B> = af(&a[0]);
    let y = || -> FBig<R, B> { af(&a[1]) };
    Some(match name {
        "add" => ok(&x + &y()),
        "sub" => ok(&x - &y()),
        "mul" => ok(&x * &y()),
        "div" => ok(&x / &y()),
        "rem" => ok(&x % &y()),
        "add.vv" => ok(x + y()),
        "add.vr" => ok(x + &y()),
        "add.rv" => ok(&x + y()),
        "add.assign" => { let mut z = x; z += y(); ok(z) }
        "sub.vv" => ok(x - y()),
        "sub.vr" => ok(x - &y()),
        "sub.rv" => ok(&x - y()),
        "sub.assign" => { let mut z = x; z -= y(); ok(z) }
        "mul.vv" => ok(x * y()),
        "mul.vr" => ok(x * &y()),
        "mul.rv" => ok(&x * y()),
        "mul.assign" => { let mut z = x; z *= y(); ok(z) }
        "div.vv" => ok(x / y()),
        "div.vr" => ok(x / &y()),
        "div.rv" => ok(&x / y()),
        "div.assign" => { let mut z = x; z /= y(); ok(z) }
        "div_euclid" => ok(x.div_euclid(y())),
        "rem_euclid" => ok(x.rem_euclid(y())),
        "div_rem_euclid" => ok(x.div_rem_euclid(y())),
        "inv" => ok(x.inv()),
        "sqr" => ok(x.sqr()),
        "cubic" => ok(x.cubic()),
        "sqrt" => ok(x.sqrt()),
        "exp" => ok(x.exp()),
        "exp_m1" => ok(x.exp_m1()),
        "ln" => ok(x.ln()),
        "ln_1p" => ok(x.ln_1p()),
        "powi" => ok(x.powi(ai(&a[1]))),
        "powf" => ok(x.powf(&y())),
        "trunc" => ok(x.trunc()),
        "fract" => ok(x.fract()),
        "ceil" => ok(x.ceil()),
        "floor" => ok(x.floor()),
        "round" => ok(x.round()),
        "split_at_point" => ok(x.split_at_point()),
        "to_int" => ok(x.to_int()),
        "shl" => ok(x << an_isize(&a[1])),
        "shr" => ok(x >> an_isize(&a[1])),
        "shl_assign" => {
            let mut z = x;
            z <<= an_isize(&a[1]);
            ok(z)
        }
        "ulp" => ok(x.ulp()),
        "neg" => ok(-x),
        "abs" => ok(x.abs()),
        "cmp" => ok(x.cmp(&y())),
        "eq" => ok(x == y()),
        "sign" => ok(x.sign()),
        "with_precision" => ok(x.with_precision(an_usize(&a[1]))),
        "clone" => ok(x.clone()),
        "to_f32" => ok(x.to_f32()),
        "to_f64" => ok(x.to_f64()),
        "convert_base" => {
            if B == 2 {
                ok(x.to_decimal())
            } else {
                ok(x.to_binary())
            }
        }
        "to_string" => ok(x.to_string()),
        "debug" => ok(format!("{:?}", x)),
        "into_ibig" => res(IBig::try_from(x)),
        _ => return None,
    })
}

fn exec_rat(op: &str, a: &[Value]) -> Option<Out> {
    Some(match op {
        "R.from_parts" => ok(RBig::from_parts(ai(&a[0]), au(&a[1]))),
        "R.from_parts_signed" => ok(RBig::from_parts_signed(ai(&a[0]), ai(&a[1]))),
        "X.from_parts" => ok(Relaxed::from_parts(ai(&a[0]), au(&a[1]))),
        "R.add" => ok(ar(&a[0]) + ar(&a[1])),
        "R.sub" => ok(ar(&a[0]) - ar(&a[1])),
        "R.mul" => ok(ar(&a[0]) * ar(&a[1])),
        "R.div" => ok(ar(&a[0]) / ar(&a[1])),
        "X.add" => ok(ax(&a[0]) + ax(&a[1])),
        "X.mul" => ok(ax(&a[0]) * ax(&a[1])),
        "X.div" => ok(ax(&a[0]) / ax(&a[1])),
        "R.div.int" => ok(ar(&a[0]) / ai(&a[1])),
        "R.mul.int" => ok(ar(&a[0]) * ai(&a[1])),
        "R.inv" => ok(ar(&a[0]).inv()),
        "X.inv" => ok(ax(&a[0]).inv()),
        "R.pow" => ok(ar(&a[0]).pow(an_usize(&a[1]))),
        "R.sqr" => ok(ar(&a[0]).sqr()),
        "R.cubic" => ok(ar(&a[0]).cubic()),
        "R.trunc" => ok(ar(&a[0]).trunc()),
        "R.floor" => ok(ar(&a[0]).floor()),
        "R.ceil" => ok(ar(&a[0]).ceil()),
        "R.round" => ok(ar(&a[0]).round()),
        "R.fract" => ok(ar(&a[0]).fract()),
        "R.split_at_point" => ok(ar(&a[0]).split_at_point()),
        "R.to_f32" => ok(ar(&a[0]).to_f32()),
        "R.to_f64" => ok(ar(&a[0]).to_f64()),
        "R.to_f64_fast" => ok(ar(&a[0]).to_f64_fast()),
        "R.to_int" => ok(ar(&a[0]).to_int()),
        "R.neg" => ok(-ar(&a[0])),
        "R.abs" => ok(ar(&a[0]).abs()),
        "R.cmp" => ok(ar(&a[0]).cmp(&ar(&a[1]))),
        "R.to_string" => ok(ar(&a[0]).to_string()),
        "X.canonicalize" => ok(ax(&a[0]).canonicalize()),
        "R.next_up" => ok(ar(&a[0]).next_up(&au(&a[1]))),
        "R.next_down" => ok(ar(&a[0]).next_down(&au(&a[1]))),
        "R.nearest" => ok(ar(&a[0]).nearest(&au(&a[1]))),
        "R.simplest_in" => ok(RBig::simplest_in(ar(&a[0]), ar(&a[1]))),
        "R.simplest_from_f64" => ok(RBig::simplest_from_f64(ad(&a[0]))),
        "R.try_from_f64" => res(RBig::try_from(ad(&a[0]))),
        "f64.try_from_R" => res(f64::try_from(ar(&a[0]))),
        "f32.try_from_R" => res(f32::try_from(ar(&a[0]))),
        "U.try_from_R" => res(UBig::try_from(ar(&a[0]))),
        "I.try_from_R" => res(IBig::try_from(ar(&a[0]))),
        "R.to_float2" => ok(ar(&a[0]).to_float::<Zero, 2>(an_usize(&a[1]))),
        "R.to_float10" => ok(ar(&a[0]).to_float::<HalfAway, 10>(an_usize(&a[1]))),
        "R.try_from_F2" => res(RBig::try_from(af::<Zero, 2>(&a[0]))),
        "R.simplest_from_F10" => ok(RBig::simplest_from_float(&af::<HalfAway, 10>(&a[0]))),
        _ => return None,
    })
}

fn exec_parse(op: &str, a: &[Value]) -> Option<Out> {
    let s = astr(&a[0]);
    let s = s.as_str();
    Some(match op {
        "U.from_str" => res(UBig::from_str(s)),
        "I.from_str" => res(IBig::from_str(s)),
        "U.from_str_radix" => res(UBig::from_str_radix(s, an_u32(&a[1]))),
        "I.from_str_radix" => res(IBig::from_str_radix(s, an_u32(&a[1]))),
        "U.from_str_with_radix_prefix" => res(UBig::from_str_with_radix_prefix(s)),
        "I.from_str_with_radix_prefix" => res(IBig::from_str_with_radix_prefix(s)),
        "F2.from_str" => res(FBig::<Zero, 2>::from_str(s)),
        "F10.from_str" => res(DBig::from_str(s)),
        "F16.from_str" => res(FBig::<Zero, 16>::from_str(s)),
        "F8.from_str" => res(FBig::<Zero, 8>::from_str(s)),
        "F3.from_str" => res(FBig::<Zero, 3>::from_str(s)),
        "R.from_str" => res(RBig::from_str(s)),
        "X.from_str" => res(Relaxed::from_str(s)),
        "R.from_str_radix" => res(RBig::from_str_radix(s, an_u32(&a[1]))),
        "X.from_str_radix" => res(Relaxed::from_str_radix(s, an_u32(&a[1]))),
        "R.from_str_with_radix_prefix" => res(RBig::from_str_with_radix_prefix(s)),
        "X.from_str_with_radix_prefix" => res(Relaxed::from_str_with_radix_prefix(s)),
        _ => return None,
    })
}

fn exec(op: &str, a: &[Value]) -> Out {
    if PARSE_OPS.contains(&op) {
        return exec_parse(op, a).unwrap();
    }
    if let Some(name) = op.strip_prefix("F2.") {
        if name == "try_from_f64" {
            return res(FBig::<Zero, 2>::try_from(ad(&a[0])));
        }
        if let Some(o) = exec_float::<Zero, 2>(name, a) {
            return o;
        }
    }
    if let Some(name) = op.strip_prefix("F10.") {
        if let Some(o) = exec_float::<HalfAway, 10>(name, a) {
            return o;
        }
    }
    if let Some(o) = exec_int(op, a) {
        return o;
    }
    if let Some(o) = exec_rat(op, a) {
        return o;
    }
    bad(&format!("unknown operation {}", op))
}

// ------------------------------------------------------------------------------------------------
// one guarded call
static PANIC_LOC: Mutex<String> = Mutex::new(String::new());

fn install_hook() {
    std::panic::set_hook(Box::new(|info| {
        if let Some(l) = info.location() {
            if let Ok(mut g) = PANIC_LOC.lock() {
                *g = format!("{}:{}", l.file(), l.line());
            }
        }
    }));
}

fn run_case(case: &Value) -> Value {
    let op = case["op"].as_str().unwrap_or("").to_string();
    let args: Vec<Value> = case["args"].as_array().cloned().unwrap_or_default();
    let t = Instant::now();
    let r = guarded(|| exec(&op, &args));
    let ms = t.elapsed().as_millis() as u64;
    match r {
        Ok(Out::Ok(d)) => json!({"k": "ok", "msg": d, "ms": ms}),
        Ok(Out::Err(d)) => json!({"k": "err", "msg": d, "ms": ms}),
        Err(m) => {
            let loc = PANIC_LOC.lock().map(|g| g.clone()).unwrap_or_default();
            let k = if m.starts_with("badcase") { "badcase" } else { "panic" };
            let mut msg: String = m.chars().take(160).collect();
            msg.push_str(" @ ");
            msg.push_str(loc.rsplit("/repo/").next().unwrap_or(&loc));
            json!({"k": k, "msg": msg, "ms": ms})
        }
    }
}

// ------------------------------------------------------------------------------------------------
// supervisor
struct Sup {
    exe: String,
    budget: Duration,
    mem_kb: u64,
}

impl Sup {
    fn shell_cmd(&self, mode_args: &str) -> Command {
        let mut c = Command::new("sh");
        c.arg("-c").arg(format!("ulimit -v {}; ulimit -c 0; exec \"$0\" {}", self.mem_kb, mode_args)).arg(&self.exe);
        c
    }

    /// one call in one child process; the raw observation (no retry)
    fn isolated_once(&self, case: &Value) -> Value {
        let t = Instant::now();
        let mut child = match self.shell_cmd("worker").stdin(Stdio::piped()).stdout(Stdio::piped()).stderr(Stdio::null()).spawn() {
            Ok(c) => c,
            Err(e) => return json!({"k": "toolerror", "msg": format!("spawn: {}", e)}),
        };
        {
            let mut stdin = child.stdin.take().unwrap();
            let _ = stdin.write_all(case.to_string().as_bytes());
        }
        let mut out = child.stdout.take().unwrap();
        let (tx, rx) = mpsc::channel();
        let reader = std::thread::spawn(move || {
            let mut s = String::new();
            let _ = out.read_to_string(&mut s);
            let _ = tx.send(s);
        });
        let mut slept = 0u32;
        loop {
            match child.try_wait() {
                Ok(Some(status)) => {
                    let _ = reader.join();
                    let text = rx.try_recv().unwrap_or_default();
                    let line = text.lines().last().unwrap_or("");
                    if let Ok(v) = serde_json::from_str::<Value>(line) {
                        if v["k"].is_string() {
                            return v;
                        }
                    }
                    use std::os::unix::process::ExitStatusExt;
                    let how = match (status.code(), status.signal()) {
                        (_, Some(s)) => format!("signal {}", s),
                        (Some(c), _) => format!("exit code {}", c),
                        _ => "unknown end".to_string(),
                    };
                    return json!({"k": "abort", "msg": how, "ms": t.elapsed().as_millis() as u64});
                }
                Ok(None) => {
                    if t.elapsed() > self.budget {
                        let _ = child.kill();
                        let _ = child.wait();
                        let _ = reader.join();
                        return json!({"k": "timeout", "msg": format!("killed after {} ms", self.budget.as_millis()),
                            "ms": t.elapsed().as_millis() as u64});
                    }
                    let d = if slept < 40 { 1 } else if slept < 200 { 5 } else { 25 };
                    slept += 1;
                    std::thread::sleep(Duration::from_millis(d));
                }
                Err(e) => return json!({"k": "toolerror", "msg": format!("wait: {}", e)}),
            }
        }
    }

    /// a timeout or an abnormal end is believed only when it happens twice
    fn isolated(&self, case: &Value) -> Value {
        let first = self.isolated_once(case);
        let k = first["k"].as_str().unwrap_or("").to_string();
        if k == "timeout" || k == "abort" {
            let mut second = self.isolated_once(case);
            if second["k"] == first["k"] {
                second["attempts"] = json!(2);
                return second;
            }
            second["first_attempt"] = first;
            return second;
        }
        first
    }

    /// non-suspect cells: executed in-process by a batch child; the child is restarted behind a cell
    /// that hangs or kills it, and that cell is re-run isolated
    fn batch(&self, cases: &[Value], idxs: &[usize], results: &mut Vec<Option<(Value, bool)>>) -> Result<(), String> {
        if idxs.is_empty() {
            return Ok(());
        }
        // in the working directory of the run (the check runs the harness inside its run directory)
        let path = format!("c16-batch-{}.ndjson", std::process::id());
        {
            let mut f = std::io::BufWriter::new(std::fs::File::create(&path).map_err(|e| e.to_string())?);
            for &i in idxs {
                writeln!(f, "{}", cases[i]).map_err(|e| e.to_string())?;
            }
        }
        let mut from = 0usize;
        while from < idxs.len() {
            let mut child = self
                .shell_cmd(&format!("batch --cases '{}' --from {}", path, from))
                .stdin(Stdio::null())
                .stdout(Stdio::piped())
                .stderr(Stdio::null())
                .spawn()
                .map_err(|e| e.to_string())?;
            let out = child.stdout.take().unwrap();
            let (tx, rx) = mpsc::channel::<String>();
            let reader = std::thread::spawn(move || {
                for line in std::io::BufReader::new(out).lines().map_while(Result::ok) {
                    if tx.send(line).is_err() {
                        break;
                    }
                }
            });
            let mut inflight: Option<usize> = None;
            let mut failed: Option<usize> = None;
            loop {
                match rx.recv_timeout(self.budget) {
                    Ok(line) => {
                        if let Some(r) = line.strip_prefix("S ") {
                            inflight = r.trim().parse().ok();
                        } else if let Some(r) = line.strip_prefix("D ") {
                            let mut it = r.splitn(2, ' ');
                            let j: usize = it.next().unwrap_or("").parse().map_err(|_| "batch protocol".to_string())?;
                            let v: Value = serde_json::from_str(it.next().unwrap_or("")).map_err(|e| e.to_string())?;
                            results[idxs[j]] = Some((v, false));
                            inflight = None;
                            from = j + 1;
                        }
                    }
                    Err(mpsc::RecvTimeoutError::Timeout) => {
                        failed = inflight;
                        let _ = child.kill();
                        break;
                    }
                    Err(mpsc::RecvTimeoutError::Disconnected) => {
                        failed = inflight;
                        break;
                    }
                }
            }
            let _ = child.kill();
            let _ = child.wait();
            let _ = reader.join();
            match failed {
                Some(j) => {
                    results[idxs[j]] = Some((self.isolated(&cases[idxs[j]]), true));
                    from = j + 1;
                }
                None => {
                    if from < idxs.len() {
                        // the child ended between two cells: nothing in flight, continue behind the last result
                        if inflight.is_none() && results[idxs[from]].is_none() {
                            results[idxs[from]] = Some((self.isolated(&cases[idxs[from]]), true));
                            from += 1;
                        }
                    }
                }
            }
        }
        let _ = std::fs::remove_file(&path);
        Ok(())
    }
}

fn supervise(args: &Args, cases: Vec<Value>, build: &str) {
    let exe = std::env::current_exe().expect("current_exe").to_string_lossy().to_string();
    let mut budget_ms = 20000u64;
    let mut jobs = 6usize;
    let mut mem_kb = 3_000_000u64;
    let mut all_iso = false;
    let mut i = 0;
    while i < args.extra.len() {
        match args.extra[i].as_str() {
            "--budget-ms" => {
                budget_ms = args.extra[i + 1].parse().unwrap();
                i += 1
            }
            "--jobs" => {
                jobs = args.extra[i + 1].parse().unwrap();
                i += 1
            }
            "--mem-kb" => {
                mem_kb = args.extra[i + 1].parse().unwrap();
                i += 1
            }
            "--isolate-all" => all_iso = true,
            _ => {}
        }
        i += 1;
    }
    let sup = Arc::new(Sup { exe, budget: Duration::from_millis(budget_ms), mem_kb });
    let cases = Arc::new(cases);
    let n = cases.len();
    let mut results: Vec<Option<(Value, bool)>> = vec![None; n];
    let iso_idx: Vec<usize> = (0..n).filter(|&i| all_iso || cases[i]["iso"].as_i64().unwrap_or(0) == 1).collect();
    let batch_idx: Vec<usize> = (0..n).filter(|&i| !(all_iso || cases[i]["iso"].as_i64().unwrap_or(0) == 1)).collect();
    // isolated cells: a pool of supervisor threads, one child process per call
    let next = Arc::new(Mutex::new(0usize));
    let iso_idx = Arc::new(iso_idx);
    let (tx, rx) = mpsc::channel::<(usize, Value)>();
    let mut handles = Vec::new();
    for _ in 0..jobs.max(1) {
        let (sup, cases, next, iso_idx, tx) = (sup.clone(), cases.clone(), next.clone(), iso_idx.clone(), tx.clone());
        handles.push(std::thread::spawn(move || loop {
            let k = {
                let mut g = next.lock().unwrap();
                let k = *g;
                *g += 1;
                k
            };
            if k >= iso_idx.len() {
                break;
            }
            let i = iso_idx[k];
            let v = sup.isolated(&cases[i]);
            if tx.send((i, v)).is_err() {
                break;
            }
        }));
    }
    drop(tx);
    // meanwhile the batch of in-process cells
    if let Err(e) = sup.batch(&cases, &batch_idx, &mut results) {
        eprintln!("c16: batch supervisor failed: {}", e);
        std::process::exit(3);
    }
    for (i, v) in rx {
        results[i] = Some((v, true));
    }
    for h in handles {
        let _ = h.join();
    }
    let mut log = Log::create(&args.out);
    let mut toolerr = 0;
    for (i, c) in cases.iter().enumerate() {
        let (out, isolated) = results[i].clone().unwrap_or((json!({"k": "toolerror", "msg": "no result"}), false));
        let k = out["k"].as_str().unwrap_or("");
        if k == "toolerror" || k == "badcase" {
            eprintln!("c16: {} on case {}: {}", k, c, out);
            toolerr += 1;
        }
        let mut ev = c.clone();
        ev["build"] = json!(build);
        ev["out"] = out;
        ev["isolated"] = json!(isolated);
        log.ev(ev);
    }
    let total = log.finish();
    eprintln!("c16[{}]: {} events ({} isolated)", build, total, iso_idx.len());
    if toolerr > 0 {
        std::process::exit(3);
    }
}

// ------------------------------------------------------------------------------------------------
// seeded fuzz cases: parser strings (mutations of grammar derivations) and random edge tuples
fn piece(bytes: &[u8]) -> Value {
    json!({"b": bytes, "n": 1})
}
fn fuzz_cases(seed: u64, n: u64) -> Vec<Value> {
    let mut rng = Rng::new(seed ^ 0xC16);
    let mut cases = Vec::new();
    let valid: &[&str] = &[
        "0", "1", "-17", "+42", "0x1f", "-0b101", "0o17", "1_000", "123456789012345678901234567890", "ff", "zz", "1.5", "-1.5e3",
        "12.34e-5", ".5", "5.", "1e10", "0x1.8p3", "-0xa.bp-2", "1.01b5", "7.7o-2", "f.fh2", "1.2@3", "3/4", "-3/4", "3/-4", "0x3/0x4",
        "0b11/101", "22/7", "1/0", "0/0", "1e-9223372036854775808", "1.5e-9223372036854775808", "1.5e9223372036854775807",
        "0x1.8p-9223372036854775808", "1.1b-9223372036854775808", "9223372036854775808", "18446744073709551616",
        "340282366920938463463374607431768211456",
    ];
    let alphabet: &[&str] = &[
        "0", "1", "7", "9", "a", "f", "z", "A", "Z", "_", "+", "-", ".", "/", "e", "E", "p", "P", "b", "B", "o", "h", "@", "x", "X",
        " ", "\t", "\n", "\0", "é", "９", "٣", "💩", "\u{200b}", "0x", "0b", "0o", "e-", "e+", "9223372036854775807",
        "-9223372036854775808", "9223372036854775808", "18446744073709551615", "00000000000000000000",
    ];
    let parsers = PARSE_OPS;
    for _ in 0..n {
        let mut s: String = rng.pick(valid).to_string();
        let nm = rng.below(4);
        for _ in 0..nm {
            let chars: Vec<char> = s.chars().collect();
            let pos = rng.below(chars.len() as u64 + 1) as usize;
            match rng.below(4) {
                0 => {
                    // insert
                    let ins = *rng.pick(alphabet);
                    s = chars[..pos].iter().collect::<String>() + ins + &chars[pos..].iter().collect::<String>();
                }
                1 if !chars.is_empty() => {
                    // delete
                    let p = pos.min(chars.len() - 1);
                    s = chars[..p].iter().collect::<String>() + &chars[p + 1..].iter().collect::<String>();
                }
                2 if !chars.is_empty() => {
                    // replace
                    let p = pos.min(chars.len() - 1);
                    s = chars[..p].iter().collect::<String>() + *rng.pick(alphabet) + &chars[p + 1..].iter().collect::<String>();
                }
                _ => {
                    // duplicate a slice
                    let q = rng.below(chars.len() as u64 + 1) as usize;
                    let (lo, hi) = (pos.min(q), pos.max(q));
                    s = chars[..hi].iter().collect::<String>() + &chars[lo..].iter().collect::<String>();
                }
            }
        }
        let op = *rng.pick(parsers);
        let mut args = vec![json!({"k": "S", "p": [piece(s.as_bytes())]})];
        if op.ends_with("from_str_radix") {
            let r = *rng.pick(&[0u32, 1, 2, 3, 8, 10, 16, 35, 36, 37, 255, u32::MAX]);
            args.push(json!({"k": "N", "v": {"s": 0, "m": words_to_bytes(&[r as Word])}}));
        }
        cases.push(json!({"op": op, "fam": "parse", "cls": [], "args": args, "iso": 1, "src": "fuzz"}));
    }
    cases
}

fn main() {
    let argv: Vec<String> = std::env::args().collect();
    install_hook();
    if argv.len() > 1 && argv[1] == "--inventory" {
        println!("{}", inventory());
        return;
    }
    if argv.len() > 1 && argv[1] == "worker" {
        let mut s = String::new();
        std::io::stdin().read_to_string(&mut s).expect("read case");
        let case: Value = serde_json::from_str(&s).expect("case json");
        let out = run_case(&case);
        println!("{}", out);
        return;
    }
    if argv.len() > 1 && argv[1] == "batch" {
        let a = parse_args(&argv[2..]);
        let mut from = 0usize;
        let mut i = 0;
        while i < a.extra.len() {
            if a.extra[i] == "--from" {
                from = a.extra[i + 1].parse().unwrap();
            }
            i += 1;
        }
        let cases = read_cases(a.cases.as_deref().expect("--cases"));
        let stdout = std::io::stdout();
        for (j, c) in cases.iter().enumerate().skip(from) {
            {
                let mut o = stdout.lock();
                let _ = writeln!(o, "S {}", j);
                let _ = o.flush();
            }
            let out = run_case(c);
            let mut o = stdout.lock();
            let _ = writeln!(o, "D {} {}", j, out);
            let _ = o.flush();
        }
        return;
    }
    let args = parse_args(&argv[1..]);
    let mut build = if cfg!(debug_assertions) { "debug".to_string() } else { "release".to_string() };
    let mut i = 0;
    while i < args.extra.len() {
        if args.extra[i] == "--build" {
            build = args.extra[i + 1].clone();
        }
        i += 1;
    }
    let mut cases: Vec<Value> = Vec::new();
    if let Some(path) = &args.cases {
        cases.extend(read_cases(path));
    }
    if args.cases.is_none() || args.extra.iter().any(|x| x == "--fuzz") {
        cases.extend(fuzz_cases(args.seed, args.n));
    }
    // events are replayable cases: drop what a previous run recorded
    for c in cases.iter_mut() {
        if let Some(m) = c.as_object_mut() {
            for k in ["out", "build", "isolated", "seq"] {
                m.remove(k);
            }
        }
    }
    supervise(&args, cases, &build);
}
