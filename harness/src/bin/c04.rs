//! C04: RBig / Relaxed arithmetic in every call form, driven as a pool machine.
//!
//! Two register files (RBig and Relaxed) are kept in lockstep.  Every event is
//! `dst := op(src registers [, integer k] [, exponent n])`, executed in every call form on both
//! files; the event records the operands as held, every outcome (grouped by result type and
//! identical value) and what was stored.  No oracle: the only values computed here besides the
//! calls under test are UNTRUSTED Bezout hints (dashu's own gcd_ext) that the monitor re-verifies.
use dashu_base::{DivEuclid, DivRemEuclid, ExtendedGcd, Inverse, RemEuclid};
use dashu_int::{IBig, Sign, UBig};
use dashu_ratio::{RBig, Relaxed};
use dashu_verif_harness::common::*;
use serde_json::{json, Value};

const NR: usize = 8;

fn mag_bytes(x: &IBig) -> Vec<u8> {
    words_to_bytes(x.as_sign_words().1)
}
fn is_neg(x: &IBig) -> bool {
    x.as_sign_words().0 == Sign::Negative
}
fn ubig_of(x: &IBig) -> UBig {
    ubig_from_bytes(&mag_bytes(x))
}
fn zero_i() -> Value {
    json!({"s": 0, "m": []})
}
fn wire(num: &IBig, den: &UBig, q: &IBig) -> Value {
    json!({"num": enc_i(num), "den": enc_u(den), "q": enc_i(q)})
}
fn wire0() -> Value {
    json!({"num": zero_i(), "den": {"s": 0, "m": [1]}, "q": zero_i()})
}
fn vr(v: &RBig) -> Value {
    wire(v.numerator(), v.denominator(), &IBig::ZERO)
}
fn vx(v: &Relaxed) -> Value {
    wire(v.numerator(), v.denominator(), &IBig::ZERO)
}

/// untrusted Bezout pair s*num + t*den = 1 (zeros when not available); only for large components
fn hint(v: &Value) -> Value {
    let none = json!({"s": zero_i(), "t": zero_i()});
    let (num, den) = (dec_i(&v["num"]), dec_u(&v["den"]));
    let nb = mag_bytes(&num).len();
    let db = words_to_bytes(den.as_words()).len();
    if (nb <= 8 && db <= 8) || nb == 0 || db == 0 {
        return none;
    }
    let mag = ubig_of(&num);
    match guarded(|| (&mag).gcd_ext(&den)) {
        Ok((_g, s, t)) => {
            let s = if is_neg(&num) { -s } else { s };
            json!({"s": enc_i(&s), "t": enc_i(&t)})
        }
        Err(_) => none,
    }
}

/// collected outcomes of one event: (result type, form, outcome)
#[derive(Default)]
struct Col {
    items: Vec<(&'static str, String, Value)>,
    first_r: Option<RBig>,
    first_x: Option<Relaxed>,
    seen_r: bool,
    seen_x: bool,
}
impl Col {
    fn put(&mut self, ty: &'static str, form: &str, r: Result<Value, String>) {
        self.items.push((ty, form.to_string(), outcome(r)));
    }
    fn r(&mut self, form: &str, f: impl FnOnce() -> RBig) {
        let res = guarded(f);
        if !self.seen_r {
            self.seen_r = true;
            if let Ok(v) = &res {
                self.first_r = Some(v.clone());
            }
        }
        self.put("R", form, res.map(|v| vr(&v)));
    }
    fn x(&mut self, form: &str, f: impl FnOnce() -> Relaxed) {
        let res = guarded(f);
        if !self.seen_x {
            self.seen_x = true;
            if let Ok(v) = &res {
                self.first_x = Some(v.clone());
            }
        }
        self.put("X", form, res.map(|v| vx(&v)));
    }
    /// Euclidean quotient + remainder
    fn rq(&mut self, form: &str, f: impl FnOnce() -> (IBig, RBig)) {
        let res = guarded(f);
        if !self.seen_r {
            self.seen_r = true;
            if let Ok(v) = &res {
                self.first_r = Some(v.1.clone());
            }
        }
        self.put("R", form, res.map(|(q, v)| wire(v.numerator(), v.denominator(), &q)));
    }
    fn xq(&mut self, form: &str, f: impl FnOnce() -> (IBig, Relaxed)) {
        let res = guarded(f);
        if !self.seen_x {
            self.seen_x = true;
            if let Ok(v) = &res {
                self.first_x = Some(v.1.clone());
            }
        }
        self.put("X", form, res.map(|(q, v)| wire(v.numerator(), v.denominator(), &q)));
    }
    /// integer quotient only (nothing is stored)
    fn ri(&mut self, form: &str, f: impl FnOnce() -> IBig) {
        self.seen_r = true;
        self.put("R", form, guarded(f).map(|q| wire(&IBig::ZERO, &UBig::ONE, &q)));
    }
    fn xi(&mut self, form: &str, f: impl FnOnce() -> IBig) {
        self.seen_x = true;
        self.put("X", form, guarded(f).map(|q| wire(&IBig::ZERO, &UBig::ONE, &q)));
    }
    /// [{ty, forms, out}] grouped by result type and identical outcome; hints added per group
    fn grouped(self) -> Value {
        let mut groups: Vec<(&'static str, Value, Vec<String>)> = Vec::new();
        for (ty, f, o) in self.items {
            let key = if o["k"] == "panic" { json!({"k": "panic"}) } else { o };
            if let Some(g) = groups.iter_mut().find(|g| g.0 == ty && g.1 == key) {
                g.2.push(f);
            } else {
                groups.push((ty, key, vec![f]));
            }
        }
        Value::Array(
            groups
                .into_iter()
                .map(|(ty, mut o, fs)| {
                    if o["k"] == "ok" {
                        let h = if ty == "R" { hint(&o["v"]) } else { json!({"s": zero_i(), "t": zero_i()}) };
                        o["v"]["hint"] = h;
                    }
                    json!({"ty": ty, "forms": fs, "out": o})
                })
                .collect(),
        )
    }
}

macro_rules! bin_forms {
    ($col:expr, $push:ident, $pre:expr, $a:expr, $b:expr, $op:tt) => {{
        let (a, b) = (&$a, &$b);
        $col.$push(concat!($pre, "rr"), || a $op b);
        $col.$push(concat!($pre, "vv"), || a.clone() $op b.clone());
        $col.$push(concat!($pre, "rv"), || a $op b.clone());
        $col.$push(concat!($pre, "vr"), || a.clone() $op b);
    }};
}
macro_rules! assign_forms {
    ($col:expr, $push:ident, $a:expr, $b:expr, $opa:tt) => {{
        let (a, b) = (&$a, &$b);
        $col.$push("av", || { let mut x = a.clone(); x $opa b.clone(); x });
        $col.$push("ar", || { let mut x = a.clone(); x $opa b; x });
    }};
}
macro_rules! meth_forms {
    ($col:expr, $push:ident, $a:expr, $b:expr, $tr:ident :: $m:ident) => {{
        let (a, b) = (&$a, &$b);
        $col.$push("rr", || $tr::$m(a, b));
        $col.$push("vv", || $tr::$m(a.clone(), b.clone()));
        $col.$push("rv", || $tr::$m(a, b.clone()));
        $col.$push("vr", || $tr::$m(a.clone(), b));
    }};
}
/// rational (op) rational, both files
macro_rules! qq_op {
    ($col:expr, $a:expr, $b:expr, $xa:expr, $xb:expr, $op:tt, $opa:tt) => {{
        bin_forms!($col, r, "", $a, $b, $op);
        assign_forms!($col, r, $a, $b, $opa);
        bin_forms!($col, x, "", $xa, $xb, $op);
        assign_forms!($col, x, $xa, $xb, $opa);
    }};
}
/// mixed forms: rational (op) integer / integer (op) rational
macro_rules! mixed_op {
    ($col:expr, $kind:expr, $a:expr, $xa:expr, $ku:expr, $ki:expr, $op:tt) => {{
        match $kind {
            "qu" => { bin_forms!($col, r, "u:", $a, $ku, $op); bin_forms!($col, x, "u:", $xa, $ku, $op); }
            "qi" => { bin_forms!($col, r, "i:", $a, $ki, $op); bin_forms!($col, x, "i:", $xa, $ki, $op); }
            "uq" => { bin_forms!($col, r, "u~:", $ku, $a, $op); bin_forms!($col, x, "u~:", $ku, $xa, $op); }
            "iq" => { bin_forms!($col, r, "i~:", $ki, $a, $op); bin_forms!($col, x, "i~:", $ki, $xa, $op); }
            other => panic!("bad kind {}", other),
        }
    }};
}

struct Pool {
    r: Vec<RBig>,
    x: Vec<Relaxed>,
}

fn size_bytes(num: &IBig, den: &UBig) -> usize {
    mag_bytes(num).len().max(words_to_bytes(den.as_words()).len())
}

impl Pool {
    fn new() -> Self {
        Pool { r: vec![RBig::ZERO; NR], x: vec![Relaxed::ZERO; NR] }
    }

    fn finish(&mut self, log: &mut Log, mut ev: Value, col: Col, dst: usize) {
        let (fr, fx) = (col.first_r.clone(), col.first_x.clone());
        ev["outs"] = col.grouped();
        // a value with a zero denominator is never fed back (the pool holds rationals only)
        match fr {
            Some(v) if !v.denominator().is_zero() => {
                ev["st"] = json!(1);
                ev["res"] = vr(&v);
                self.r[dst] = v;
            }
            _ => {
                ev["st"] = json!(0);
                ev["res"] = wire0();
            }
        }
        match fx {
            Some(v) if !v.denominator().is_zero() => {
                ev["xst"] = json!(1);
                ev["xres"] = vx(&v);
                self.x[dst] = v;
            }
            _ => {
                ev["xst"] = json!(0);
                ev["xres"] = wire0();
            }
        }
        log.ev(ev);
    }

    /// dst := num/den through the raw constructors (den != 0)
    fn load(&mut self, log: &mut Log, dst: usize, num: &IBig, den: &UBig, from: &str) {
        let mut col = Col::default();
        let raw = wire(num, den, &IBig::ZERO);
        let deni = IBig::from(den.clone());
        col.r("from_parts", || RBig::from_parts(num.clone(), den.clone()));
        col.r("from_parts_signed", || RBig::from_parts_signed(num.clone(), deni.clone()));
        col.r("from_parts_signed-", || RBig::from_parts_signed(-num.clone(), -deni.clone()));
        col.x("from_parts", || Relaxed::from_parts(num.clone(), den.clone()));
        col.x("from_parts_signed", || Relaxed::from_parts_signed(num.clone(), deni.clone()));
        col.x("from_parts_signed-", || Relaxed::from_parts_signed(-num.clone(), -deni.clone()));
        col.r("canonicalize", || Relaxed::from_parts(num.clone(), den.clone()).canonicalize());
        col.x("relax", || RBig::from_parts(num.clone(), den.clone()).relax());
        let ev = json!({"prop": "C04", "op": "load", "kind": "load", "dst": dst + 1, "src": [1, 1],
            "a": raw.clone(), "xa": raw, "b": wire0(), "xb": wire0(), "k": zero_i(), "n": 0, "from": from});
        self.finish(log, ev, col, dst);
    }

    fn apply(&mut self, log: &mut Log, op: &str, kind: &str, dst: usize, s1: usize, s2: usize, k: &IBig, n: usize, from: &str) {
        let (a, b, xa, xb) = (self.r[s1].clone(), self.r[s2].clone(), self.x[s1].clone(), self.x[s2].clone());
        let ku = ubig_of(k);
        let ki = k.clone();
        let mut col = Col::default();
        match kind {
            "qq" => match op {
                "add" => {
                    qq_op!(col, a, b, xa, xb, +, +=);
                }
                "sub" => qq_op!(col, a, b, xa, xb, -, -=),
                "mul" => {
                    qq_op!(col, a, b, xa, xb, *, *=);
                }
                "div" => qq_op!(col, a, b, xa, xb, /, /=),
                "rem" => qq_op!(col, a, b, xa, xb, %, %=),
                "div_euclid" => {
                    meth_forms!(col, ri, a, b, DivEuclid::div_euclid);
                    meth_forms!(col, xi, xa, xb, DivEuclid::div_euclid);
                }
                "rem_euclid" => {
                    meth_forms!(col, r, a, b, RemEuclid::rem_euclid);
                    meth_forms!(col, x, xa, xb, RemEuclid::rem_euclid);
                }
                "div_rem_euclid" => {
                    meth_forms!(col, rq, a, b, DivRemEuclid::div_rem_euclid);
                    meth_forms!(col, xq, xa, xb, DivRemEuclid::div_rem_euclid);
                }
                other => panic!("unknown op {}", other),
            },
            "qu" | "qi" | "uq" | "iq" => match op {
                "add" => mixed_op!(col, kind, a, xa, ku, ki, +),
                "sub" => mixed_op!(col, kind, a, xa, ku, ki, -),
                "mul" => mixed_op!(col, kind, a, xa, ku, ki, *),
                "div" => mixed_op!(col, kind, a, xa, ku, ki, /),
                other => panic!("unknown mixed op {}", other),
            },
            "q" => match op {
                "inv" => {
                    col.r("r", || (&a).inv());
                    col.r("v", || a.clone().inv());
                    col.x("r", || (&xa).inv());
                    col.x("v", || xa.clone().inv());
                }
                "sqr" => {
                    col.r("m", || a.sqr());
                    col.x("m", || xa.sqr());
                }
                "cubic" => {
                    col.r("m", || a.cubic());
                    col.x("m", || xa.cubic());
                }
                "pow" => {
                    col.r("m", || a.pow(n));
                    col.x("m", || xa.pow(n));
                }
                other => panic!("unknown unary op {}", other),
            },
            other => panic!("unknown kind {}", other),
        }
        let binary = kind == "qq";
        let k_eff = if kind == "qu" || kind == "uq" { IBig::from(ku.clone()) } else { ki.clone() };
        let ev = json!({"prop": "C04", "op": op, "kind": kind, "dst": dst + 1, "src": [s1 + 1, s2 + 1],
            "a": vr(&a), "xa": vx(&xa),
            "b": if binary { vr(&b) } else { wire0() }, "xb": if binary { vx(&xb) } else { wire0() },
            "k": enc_i(&k_eff), "n": n, "from": from});
        self.finish(log, ev, col, dst);
    }
}

// ---------------------------------------------------------------- random operands
fn nz(u: UBig) -> UBig {
    if u.is_zero() {
        UBig::ONE
    } else {
        u
    }
}
/// a rational with planted common factors (raw numerator / denominator, denominator != 0)
fn random_parts(rng: &mut Rng, max_words: usize) -> (IBig, UBig) {
    let half = (max_words / 2).max(1);
    match rng.below(12) {
        0 => (IBig::ZERO, nz(random_ubig(rng, 1))),
        1 => (if rng.coin() { IBig::ONE } else { IBig::NEG_ONE }, UBig::ONE),
        2 => (random_ibig(rng, half), UBig::ONE),
        3 => (if rng.coin() { IBig::ONE } else { IBig::NEG_ONE }, nz(random_ubig(rng, half))),
        4 => (IBig::from(rng.range(-12, 12)), nz(UBig::from(rng.below(13) as u8))),
        _ => {
            let g = nz(random_ubig(rng, half));
            let x = random_ibig(rng, half);
            let y = nz(random_ubig(rng, half));
            if rng.coin() {
                (x * IBig::from(g.clone()), y * g)
            } else {
                (x, y)
            }
        }
    }
}

fn run_case(pool: &mut Pool, log: &mut Log, c: &Value, cache: &mut [Option<Value>; 2]) {
    let op = c["op"].as_str().unwrap();
    let kind = c["kind"].as_str().unwrap();
    let from = c["grp"].as_str().unwrap_or("gen");
    let a = &c["a"];
    if kind == "load" {
        pool.load(log, 2, &dec_i(&a["num"]), &dec_u(&a["den"]), from);
        return;
    }
    let key_a = json!([a["num"], a["den"]]);
    if cache[0].as_ref() != Some(&key_a) {
        pool.load(log, 0, &dec_i(&a["num"]), &dec_u(&a["den"]), from);
        cache[0] = Some(key_a);
    }
    if kind == "qq" {
        let b = &c["b"];
        let key_b = json!([b["num"], b["den"]]);
        if cache[1].as_ref() != Some(&key_b) {
            pool.load(log, 1, &dec_i(&b["num"]), &dec_u(&b["den"]), from);
            cache[1] = Some(key_b);
        }
    }
    let k = if c["k"].is_object() { dec_i(&c["k"]) } else { IBig::ZERO };
    let n = c["n"].as_u64().unwrap_or(0) as usize;
    pool.apply(log, op, kind, 2, 0, 1, &k, n, from);
}

fn main() {
    let args = &start();
    let mut log = Log::create(&args.out);
    let mut rng = Rng::new(args.seed);
    let mut pool = Pool::new();
    // 1. cases generated by TLC (spec -> implementation), or a violation file being replayed
    if let Some(path) = &args.cases {
        let mut cache: [Option<Value>; 2] = [None, None];
        for c in read_cases(path) {
            run_case(&mut pool, &mut log, &c, &mut cache);
        }
    }
    // 2. seeded random histories (implementation -> spec)
    let maxw = args.max_words.max(1);
    let cap = maxw * 8 * 3; // a component larger than this is replaced by a fresh load
    if args.n > 0 {
        for i in 0..NR {
            let (nu, de) = random_parts(&mut rng, maxw);
            pool.load(&mut log, i, &nu, &de, "rnd");
        }
    }
    for _ in 0..args.n {
        // keep sizes bounded: an oversized RBig register is refreshed, an oversized Relaxed register
        // is reloaded from its RBig twin
        for i in 0..NR {
            if size_bytes(pool.r[i].numerator(), pool.r[i].denominator()) > cap {
                let (nu, de) = random_parts(&mut rng, maxw);
                pool.load(&mut log, i, &nu, &de, "rnd");
            } else if size_bytes(pool.x[i].numerator(), pool.x[i].denominator()) > 2 * cap {
                let (nu, de) = (pool.r[i].numerator().clone(), pool.r[i].denominator().clone());
                pool.load(&mut log, i, &nu, &de, "rnd");
            }
        }
        let dst = rng.below(NR as u64) as usize;
        let s1 = rng.below(NR as u64) as usize;
        let s2 = if rng.below(8) == 0 { s1 } else { rng.below(NR as u64) as usize };
        let roll = rng.below(100);
        if roll < 10 {
            let (nu, de) = match rng.below(4) {
                // the negation / an unreduced multiple of a live value
                0 => (-pool.r[s1].numerator().clone(), pool.r[s1].denominator().clone()),
                1 => {
                    let f = nz(random_ubig(&mut rng, 1));
                    (pool.r[s1].numerator() * IBig::from(f.clone()), pool.r[s1].denominator() * f)
                }
                _ => random_parts(&mut rng, maxw),
            };
            pool.load(&mut log, dst, &nu, &de, "rnd");
        } else if roll < 60 {
            let op = *rng.pick(&["add", "add", "sub", "sub", "mul", "mul", "div", "div", "rem", "div_euclid", "rem_euclid", "div_rem_euclid"]);
            pool.apply(&mut log, op, "qq", dst, s1, s2, &IBig::ZERO, 0, "rnd");
        } else if roll < 85 {
            let op = *rng.pick(&["add", "sub", "mul", "div"]);
            let kind = *rng.pick(&["qu", "qi", "uq", "iq"]);
            let k = match rng.below(6) {
                0 => IBig::from(rng.range(-3, 3)),
                // integers sharing factors with the denominator / numerator of the operand
                1 => IBig::from(pool.r[s1].denominator().clone()) * IBig::from(rng.range(-9, 9)),
                2 => pool.r[s1].numerator() * IBig::from(rng.range(-9, 9)),
                _ => random_ibig(&mut rng, maxw.min(3)),
            };
            pool.apply(&mut log, op, kind, dst, s1, s1, &k, 0, "rnd");
        } else {
            let op = *rng.pick(&["inv", "inv", "sqr", "cubic", "pow"]);
            let sz = size_bytes(pool.r[s1].numerator(), pool.r[s1].denominator()).max(size_bytes(pool.x[s1].numerator(), pool.x[s1].denominator())).max(1);
            let n = if op == "pow" { rng.below((cap / sz) as u64 + 2) as usize } else { 0 };
            pool.apply(&mut log, op, "q", dst, s1, s1, &IBig::ZERO, n.min(12), "rnd");
        }
    }
    let n = log.finish();
    eprintln!("c04: {} events", n);
}
