//! C11: exp, exp_m1, ln, ln_1p, powi, powf of FBig / Context, every base x rounding mode.
//!
//! No oracle here: a case names the operation, the configuration (base, mode, precision) and the
//! operands; the harness calls the Context method and (when the operand fits the precision, which
//! `FBig::from_repr` requires) the FBig method of the same name, and writes back what came out.
//! The TLC monitor Trace_C11 computes a rigorous enclosure of the true value and decides.
//!
//! Case / event fields: op, base, mode, prec, x {sig, exp}, y {sig, exp} (powf exponent),
//! n (powi exponent, JSON int), cls (class label of the generator), src.
//! Event adds: xd, yd (digit counts of the operands), outs [{forms, out: {k: ok, v: {v: float, flag}} | {k: panic, msg} | {k: timeout}}].
use dashu_float::round::Round;
use dashu_float::{Context, FBig, Repr};
use dashu_int::{IBig, UBig, Word};
use dashu_verif_harness::common::*;
use dashu_verif_harness::forms::*;
use dashu_verif_harness::fwire::*;
use dashu_verif_harness::{dispatch_base, dispatch_mode};
use serde_json::{json, Value};
use std::sync::atomic::{AtomicU64, Ordering};

const OPS: &[&str] = &["exp", "exp_m1", "ln", "ln_1p", "powi", "powf"];
const C11_BASES: &[u64] = &[2, 3, 10, 16, 36];

/// result of an FBig method: the value only (these methods drop the rounding flag)
fn enc_plain<R: Round, const B: Word>(f: &FBig<R, B>) -> Value {
    json!({"v": enc_f(f), "flag": "none"})
}

fn ibig_small(n: i64) -> IBig {
    ibig_from_parts(n < 0, &n.unsigned_abs().to_le_bytes())
}

fn forms<R: Round, const B: Word>(op: &str, prec: usize, x: &Repr<B>, y: &Repr<B>, n: i64) -> Value {
    let ctx = Context::<R>::new(prec);
    let mut outs = Outs::new();
    // FBig::from_repr demands that a limited precision covers the digits of the operand
    let fits = |r: &Repr<B>| prec == 0 || r.digits() <= prec;
    match op {
        "exp" => {
            outs.push("ctx", guarded(|| enc_rounded_f(&ctx.exp(x))));
            if fits(x) {
                outs.push("fbig", guarded(|| enc_plain(&FBig::<R, B>::from_repr(x.clone(), ctx).exp())));
            }
        }
        "exp_m1" => {
            outs.push("ctx", guarded(|| enc_rounded_f(&ctx.exp_m1(x))));
            if fits(x) {
                outs.push("fbig", guarded(|| enc_plain(&FBig::<R, B>::from_repr(x.clone(), ctx).exp_m1())));
            }
        }
        "ln" => {
            outs.push("ctx", guarded(|| enc_rounded_f(&ctx.ln(x))));
            if fits(x) {
                outs.push("fbig", guarded(|| enc_plain(&FBig::<R, B>::from_repr(x.clone(), ctx).ln())));
            }
        }
        "ln_1p" => {
            outs.push("ctx", guarded(|| enc_rounded_f(&ctx.ln_1p(x))));
            if fits(x) {
                outs.push("fbig", guarded(|| enc_plain(&FBig::<R, B>::from_repr(x.clone(), ctx).ln_1p())));
            }
        }
        "powi" => {
            outs.push("ctx", guarded(|| enc_rounded_f(&ctx.powi(x, ibig_small(n)))));
            if fits(x) {
                outs.push("fbig", guarded(|| enc_plain(&FBig::<R, B>::from_repr(x.clone(), ctx).powi(ibig_small(n)))));
            }
        }
        "powf" => {
            outs.push("ctx", guarded(|| enc_rounded_f(&ctx.powf(x, y))));
            if fits(x) && fits(y) {
                outs.push("fbig", guarded(|| {
                    let a = FBig::<R, B>::from_repr(x.clone(), ctx);
                    let b = FBig::<R, B>::from_repr(y.clone(), ctx);
                    enc_plain(&a.powf(&b))
                }));
                // the exponent carries a smaller (limited) precision: the result takes the larger one
                if prec > 1 && y.digits() <= 1 {
                    outs.push("fbig-mixed", guarded(|| {
                        let a = FBig::<R, B>::from_repr(x.clone(), ctx);
                        let b = FBig::<R, B>::from_repr(y.clone(), Context::<R>::new(1));
                        enc_plain(&a.powf(&b))
                    }));
                }
            }
        }
        other => panic!("unknown op {}", other),
    }
    outs.grouped()
}

fn dec_arg<const B: Word>(v: &Value) -> Repr<B> {
    if v.is_null() {
        Repr::<B>::zero()
    } else {
        Repr::<B>::new(dec_i(&v["sig"]), v["exp"].as_i64().unwrap_or(0) as isize)
    }
}
fn enc_arg<const B: Word>(r: &Repr<B>) -> Value {
    json!({"sig": enc_i(r.significand()), "exp": r.exponent() as i64})
}

static BUSY_SINCE: AtomicU64 = AtomicU64::new(0);
static BUSY_CASE: AtomicU64 = AtomicU64::new(0);
fn now_ms() -> u64 {
    std::time::SystemTime::now().duration_since(std::time::UNIX_EPOCH).unwrap().as_millis() as u64
}

fn run_case(log: &mut Log, c: &Value, src: &str) {
    let op = c["op"].as_str().unwrap().to_string();
    let base = c["base"].as_u64().unwrap();
    let mode = c["mode"].as_str().unwrap().to_string();
    let prec = c["prec"].as_u64().unwrap() as usize;
    let n = c["n"].as_i64().unwrap_or(0);
    BUSY_CASE.store(log.n + 1, Ordering::SeqCst);
    BUSY_SINCE.store(now_ms(), Ordering::SeqCst);
    let (x, y, outs, xd, yd) = dispatch_base!(base, B => {
        let x = dec_arg::<B>(&c["x"]);
        let y = dec_arg::<B>(&c["y"]);
        let outs = dispatch_mode!(mode.as_str(), R => forms::<R, B>(&op, prec, &x, &y, n));
        // operands are echoed as the library holds them (Repr::new strips trailing zero digits),
        // with their digit counts as the library reports them (FBig::from_repr wants digits <= precision)
        (enc_arg(&x), enc_arg(&y), outs, x.digits(), y.digits())
    });
    BUSY_SINCE.store(0, Ordering::SeqCst);
    log.ev(json!({"prop": "C11", "op": op, "base": base, "mode": mode, "prec": prec, "x": x, "y": y, "n": n, "xd": xd, "yd": yd,
        "cls": c["cls"].as_str().unwrap_or(""), "src": src, "outs": outs}));
}

// ------------------------------------------------------------------ seeded argument families
fn pow_u(b: u64, k: u64) -> UBig {
    let mut r = ubig_small(1);
    for _ in 0..k {
        r = r * ubig_small(b);
    }
    r
}
/// random magnitude below b^d with a non-zero leading digit
fn rand_digits(rng: &mut Rng, b: u64, d: u64) -> UBig {
    let mut r = ubig_small(1 + rng.below(b - 1));
    for _ in 1..d {
        r = r * ubig_small(b) + ubig_small(rng.below(b));
    }
    r
}
fn arg(neg: bool, m: UBig, e: i64) -> Value {
    let i = IBig::from_parts(if neg { dashu_int::Sign::Negative } else { dashu_int::Sign::Positive }, m);
    json!({"sig": enc_i(&i), "exp": e})
}

/// one argument of a family; returns (class label, value); `sign`: 0 positive only, 1 any sign,
/// 2 any sign but magnitude below one when negative (ln_1p)
fn family_arg(rng: &mut Rng, b: u64, prec: u64, sign: u8) -> (String, Value) {
    let p = prec.max(1);
    let fam = rng.below(9);
    let neg = sign != 0 && rng.below(3) == 0;
    let (cls, mut m, mut e): (&str, UBig, i64) = match fam {
        0 => ("pow-neg", ubig_small(1), -(rng.below(2 * p + 6) as i64)),
        1 => {
            // 1 + B^-k
            let k = 1 + rng.below(p + 4);
            ("one-plus", pow_u(b, k) + ubig_small(1), -(k as i64))
        }
        2 => {
            // 1 - B^-k
            let k = 1 + rng.below(p + 4);
            ("one-minus", pow_u(b, k) - ubig_small(1), -(k as i64))
        }
        3 => {
            // near zero: few digits, strongly negative exponent
            let d = 1 + rng.below(p.min(6));
            ("near-zero", rand_digits(rng, b, d), -((d + 1 + rng.below(p + 8)) as i64))
        }
        4 => {
            // near one: 1 +- small * B^-k
            let d = 1 + rng.below(3);
            let k = d + 1 + rng.below(p + 2);
            let s = rand_digits(rng, b, d);
            if rng.coin() {
                ("near-one", pow_u(b, k) + s, -(k as i64))
            } else {
                ("near-one", pow_u(b, k) - s, -(k as i64))
            }
        }
        5 => ("small-int", ubig_small(1 + rng.below(20)), 0),
        6 => {
            // large magnitude up to ~200 with a short fraction
            let ip = 20 + rng.below(181);
            let fd = rng.below(3);
            ("large", ubig_small(ip) * pow_u(b, fd) + if fd > 0 { rand_digits(rng, b, fd) } else { ubig_small(0) }, -(fd as i64))
        }
        7 => {
            // p-digit significand, magnitude around one
            let d = 1 + rng.below(p.min(45));
            ("dense", rand_digits(rng, b, d), -((d as i64) + rng.range(-2, 2)))
        }
        _ => {
            // more digits than the precision (only the Context form accepts it)
            let d = p + 1 + rng.below(4);
            ("wide", rand_digits(rng, b, d.min(60)), -((d.min(60) as i64) + rng.range(-1, 1)))
        }
    };
    if sign == 2 && neg {
        // force |x| < 1: digits(m) + e <= 0
        let mut d = 0i64;
        let mut t = m.clone();
        while t > ubig_small(0) {
            t = t / ubig_small(b);
            d += 1;
        }
        if d + e > 0 {
            e = -d - rng.below(3) as i64;
        }
        // 1 - B^-k style values stay valid: magnitude below one
    }
    if m == ubig_small(0) {
        m = ubig_small(1);
    }
    (cls.to_string(), arg(neg, m, e))
}

fn random_case(rng: &mut Rng, max_prec: u64) -> Value {
    let op = *rng.pick(OPS);
    let base = *rng.pick(C11_BASES);
    let mode = *rng.pick(MODES);
    let prec = match rng.below(10) {
        0..=5 => 1 + rng.below(12),
        6 | 7 => 20,
        _ => 40,
    }
    .min(max_prec);
    let mut c = json!({"op": op, "base": base, "mode": mode, "prec": prec, "n": 0, "y": arg(false, ubig_small(0), 0)});
    match op {
        "exp" | "exp_m1" => {
            let (cls, x) = family_arg(rng, base, prec, 1);
            c["x"] = x;
            c["cls"] = json!(cls);
        }
        "ln" => {
            let (cls, x) = family_arg(rng, base, prec, 0);
            c["x"] = x;
            c["cls"] = json!(cls);
        }
        "ln_1p" => {
            let (cls, x) = family_arg(rng, base, prec, 2);
            c["x"] = x;
            c["cls"] = json!(cls);
        }
        "powi" => {
            let (cls, x) = family_arg(rng, base, prec.min(12), 1);
            // keep the exact power affordable for the monitor: digits * |n| bounded
            let n = match rng.below(8) {
                0 => 0,
                1 => 1,
                2 => -1,
                3 => 2,
                4 => -2,
                5 => rng.range(-12, 12),
                _ => rng.range(-40, 40),
            };
            c["x"] = x;
            c["n"] = json!(n);
            c["cls"] = json!(cls);
        }
        _ => {
            let (cls, x) = family_arg(rng, base, prec, 0);
            // exponent: fractional, both signs, moderate size
            let d = 1 + rng.below(3);
            let fd = rng.below(d + 2);
            let ym = rand_digits(rng, base, d);
            let mut y = arg(rng.below(3) == 0, ym, -(fd as i64));
            match rng.below(12) {
                0 => y = arg(false, ubig_small(0), 0),
                1 => y = arg(false, ubig_small(1), 0),
                _ => {}
            }
            // keep |y ln x| below about 250 (the property is explored for results up to e^+-250):
            // shift the exponent down by whole digits; magnitudes are estimated from digit counts only
            let lb = (base as f64).ln();
            let digits = |v: &Value| dec_i(&v["sig"]).to_string().len() as f64 * (10f64).ln() / lb;
            let lnx = ((x["exp"].as_i64().unwrap() as f64 + digits(&x)).abs() + 1.0) * lb;
            let mut ye = y["exp"].as_i64().unwrap();
            while ((digits(&y) + ye as f64) * lb).exp() * lnx > 250.0 {
                ye -= 1;
            }
            y["exp"] = json!(ye);
            c["x"] = x;
            c["y"] = y;
            c["cls"] = json!(cls);
        }
    }
    c
}

fn main() {
    let args = &start();
    let mut max_prec = 40u64;
    let mut watchdog_ms = 60_000u64;
    let mut i = 0;
    while i < args.extra.len() {
        match args.extra[i].as_str() {
            "--max-prec" => {
                max_prec = args.extra[i + 1].parse().unwrap();
                i += 1
            }
            "--watchdog-ms" => {
                watchdog_ms = args.extra[i + 1].parse().unwrap();
                i += 1
            }
            _ => {}
        }
        i += 1;
    }
    // a call of the code under test that does not return is reported, not waited for forever
    std::thread::spawn(move || loop {
        std::thread::sleep(std::time::Duration::from_millis(500));
        let since = BUSY_SINCE.load(Ordering::SeqCst);
        if since != 0 && now_ms() > since + watchdog_ms {
            eprintln!("c11: case {} did not return within {} ms", BUSY_CASE.load(Ordering::SeqCst), watchdog_ms);
            std::process::exit(3);
        }
    });
    let mut log = Log::create(&args.out);
    let mut rng = Rng::new(args.seed);
    if let Some(path) = &args.cases {
        for c in read_cases(path) {
            let src = c["src"].as_str().unwrap_or("gen").to_string();
            run_case(&mut log, &c, &src);
        }
    }
    for _ in 0..args.n {
        let c = random_case(&mut rng, max_prec);
        run_case(&mut log, &c, "rnd");
    }
    let n = log.finish();
    eprintln!("c11: {} events", n);
}
