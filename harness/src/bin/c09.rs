//! C09 (and its C15 form inventory): bit operations on UBig / IBig / primitives.
use dashu_base::{BitTest, PowerOfTwo};
use dashu_int::{IBig, UBig};
use dashu_verif_harness::common::*;
use dashu_verif_harness::forms::*;
use dashu_verif_harness::{forms_assign, forms_binop};
use serde_json::{json, Value};

fn eu(x: &UBig) -> Value {
    enc_u(x)
}
fn ei(x: &IBig) -> Value {
    enc_i(x)
}
fn opt(x: Option<usize>) -> Value {
    match x {
        Some(v) => json!(v),
        None => json!(-1),
    }
}
fn mag_bytes(x: &IBig) -> (bool, Vec<u8>) {
    let (s, w) = x.as_sign_words();
    (s == dashu_int::Sign::Negative, words_to_bytes(w))
}
macro_rules! prim_enc {
    ($p:expr) => {
        PrimEnc::penc($p)
    };
}
/// big (op) unsigned primitive; `&` returns the primitive type, `|` `^` the big type
macro_rules! uprim_forms {
    ($t:ty, $p:expr, $outs:expr, $x:expr, $op:tt, $opa:tt, $enc:expr, and: $and:tt) => {{
        let x = &$x; let p: $t = $p; let pre = stringify!($t);
        uprim_forms!(@core $and, $outs, pre, x, p, $op, $enc);
        $outs.push(&format!("{}:av", pre), guarded(|| { let mut t = x.clone(); t $opa p; $enc(&t) }));
        $outs.push(&format!("{}:ar", pre), guarded(|| { let mut t = x.clone(); t $opa &p; $enc(&t) }));
    }};
    (@core yes, $outs:expr, $pre:expr, $x:ident, $p:ident, $op:tt, $enc:expr) => {
        $outs.push(&format!("{}:vv", $pre), guarded(|| prim_enc!($x.clone() $op $p)));
        $outs.push(&format!("{}:rv", $pre), guarded(|| prim_enc!($x $op $p)));
        $outs.push(&format!("{}:vr", $pre), guarded(|| prim_enc!($x.clone() $op &$p)));
        $outs.push(&format!("{}:rr", $pre), guarded(|| prim_enc!($x $op &$p)));
        $outs.push(&format!("{}~:vv", $pre), guarded(|| prim_enc!($p $op $x.clone())));
        $outs.push(&format!("{}~:rv", $pre), guarded(|| prim_enc!(&$p $op $x.clone())));
        $outs.push(&format!("{}~:vr", $pre), guarded(|| prim_enc!($p $op $x)));
        $outs.push(&format!("{}~:rr", $pre), guarded(|| prim_enc!(&$p $op $x)));
    };
    (@core no, $outs:expr, $pre:expr, $x:ident, $p:ident, $op:tt, $enc:expr) => {
        $outs.push(&format!("{}:vv", $pre), guarded(|| $enc(&($x.clone() $op $p))));
        $outs.push(&format!("{}:rv", $pre), guarded(|| $enc(&($x $op $p))));
        $outs.push(&format!("{}:vr", $pre), guarded(|| $enc(&($x.clone() $op &$p))));
        $outs.push(&format!("{}:rr", $pre), guarded(|| $enc(&($x $op &$p))));
        $outs.push(&format!("{}~:vv", $pre), guarded(|| $enc(&($p $op $x.clone()))));
        $outs.push(&format!("{}~:rv", $pre), guarded(|| $enc(&(&$p $op $x.clone()))));
        $outs.push(&format!("{}~:vr", $pre), guarded(|| $enc(&($p $op $x))));
        $outs.push(&format!("{}~:rr", $pre), guarded(|| $enc(&(&$p $op $x))));
    };
}
macro_rules! each_unsigned {
    ($v:expr, $($args:tt)*) => {{
        let v: u128 = $v;
        if v <= u8::MAX as u128 { uprim_forms!(u8, v as u8, $($args)*); }
        if v <= u16::MAX as u128 { uprim_forms!(u16, v as u16, $($args)*); }
        if v <= u32::MAX as u128 { uprim_forms!(u32, v as u32, $($args)*); }
        if v <= u64::MAX as u128 { uprim_forms!(u64, v as u64, $($args)*); uprim_forms!(usize, v as usize, $($args)*); }
        uprim_forms!(u128, v, $($args)*);
    }};
}
macro_rules! each_signed {
    ($v:expr, $($args:tt)*) => {{
        let v: i128 = $v;
        if v >= i8::MIN as i128 && v <= i8::MAX as i128 { uprim_forms!(i8, v as i8, $($args)*); }
        if v >= i16::MIN as i128 && v <= i16::MAX as i128 { uprim_forms!(i16, v as i16, $($args)*); }
        if v >= i32::MIN as i128 && v <= i32::MAX as i128 { uprim_forms!(i32, v as i32, $($args)*); }
        if v >= i64::MIN as i128 && v <= i64::MAX as i128 { uprim_forms!(i64, v as i64, $($args)*); uprim_forms!(isize, v as isize, $($args)*); }
        uprim_forms!(i128, v, $($args)*);
    }};
}

macro_rules! bit_op {
    ($name:ident, $op:tt, $opa:tt, and: $and:tt) => {
        fn $name(lt: &str, rt: &str, a: &IBig, b: &IBig) -> Value {
            let mut outs = Outs::new();
            let (sa, ma) = mag_bytes(a);
            let (sb, mb) = mag_bytes(b);
            let _ = sa;
            match (lt, rt) {
                ("U", "U") => {
                    let (x, y) = (ubig_from_bytes(&ma), ubig_from_bytes(&mb));
                    forms_binop!(outs, "", x, y, $op, eu);
                    forms_assign!(outs, "", x, y, $opa, eu);
                    if let Some(v) = small_mag(&mb) {
                        each_unsigned!(v, outs, x, $op, $opa, eu, and: $and);
                    }
                }
                ("I", "I") => {
                    let (x, y) = (a.clone(), b.clone());
                    forms_binop!(outs, "", x, y, $op, ei);
                    forms_assign!(outs, "", x, y, $opa, ei);
                    if !sb {
                        if let Some(v) = small_mag(&mb) {
                            each_unsigned!(v, outs, x, $op, $opa, ei, and: $and);
                        }
                    }
                    if let Some(v) = small_signed(sb, &mb) {
                        each_signed!(v, outs, x, $op, $opa, ei, and: no);
                    }
                }
                ("U", "I") => {
                    let (x, y) = (ubig_from_bytes(&ma), b.clone());
                    bit_op!(@mixed $and, outs, x, y, $op);
                }
                ("I", "U") => {
                    let (x, y) = (a.clone(), ubig_from_bytes(&mb));
                    bit_op!(@mixed $and, outs, x, y, $op);
                    forms_assign!(outs, "", x, y, $opa, ei);
                }
                _ => panic!("bad type pair"),
            }
            outs.grouped()
        }
    };
    // UBig & IBig -> UBig; | ^ -> IBig
    (@mixed yes, $outs:expr, $x:expr, $y:expr, $op:tt) => { forms_binop!($outs, "", $x, $y, $op, eu) };
    (@mixed no, $outs:expr, $x:expr, $y:expr, $op:tt) => { forms_binop!($outs, "", $x, $y, $op, ei) };
}
bit_op!(forms_and, &, &=, and: yes);
bit_op!(forms_or, |, |=, and: no);
bit_op!(forms_xor, ^, ^=, and: no);

fn run_binary(log: &mut Log, op: &str, lt: &str, rt: &str, a: &IBig, b: &IBig, src: &str) {
    let a_eff = if lt == "U" { IBig::from(ubig_from_bytes(&mag_bytes(a).1)) } else { a.clone() };
    let b_eff = if rt == "U" { IBig::from(ubig_from_bytes(&mag_bytes(b).1)) } else { b.clone() };
    let outs = match op {
        "and" => forms_and(lt, rt, &a_eff, &b_eff),
        "or" => forms_or(lt, rt, &a_eff, &b_eff),
        "xor" => forms_xor(lt, rt, &a_eff, &b_eff),
        _ => panic!("bad op"),
    };
    log.ev(json!({"prop": "C09", "op": op, "lt": lt, "rt": rt, "src": src, "a": enc_i(&a_eff), "b": enc_i(&b_eff), "n": 0, "outs": outs}));
}

fn run_shift(log: &mut Log, op: &str, t: &str, a: &IBig, n: usize, src: &str) {
    let a_eff = if t == "U" { IBig::from(ubig_from_bytes(&mag_bytes(a).1)) } else { a.clone() };
    let mut outs = Outs::new();
    macro_rules! sh {
        ($x:expr, $enc:expr, $op:tt, $opa:tt) => {{
            let x = &$x;
            outs.push("vv", guarded(|| $enc(&(x.clone() $op n))));
            outs.push("rv", guarded(|| $enc(&(x $op n))));
            outs.push("vr", guarded(|| $enc(&(x.clone() $op &n))));
            outs.push("rr", guarded(|| $enc(&(x $op &n))));
            outs.push("av", guarded(|| { let mut t = x.clone(); t $opa n; $enc(&t) }));
            outs.push("ar", guarded(|| { let mut t = x.clone(); t $opa &n; $enc(&t) }));
        }};
    }
    if t == "U" {
        let x = ubig_from_bytes(&mag_bytes(&a_eff).1);
        if op == "shl" { sh!(x, eu, <<, <<=) } else { sh!(x, eu, >>, >>=) }
    } else {
        let x = a_eff.clone();
        if op == "shl" { sh!(x, ei, <<, <<=) } else { sh!(x, ei, >>, >>=) }
    }
    log.ev(json!({"prop": "C09", "op": op, "lt": t, "rt": t, "src": src, "a": enc_i(&a_eff), "b": enc_i(&IBig::ZERO), "n": n, "outs": outs.grouped()}));
}

fn run_not(log: &mut Log, a: &IBig, src: &str) {
    let mut outs = Outs::new();
    outs.push("v", guarded(|| ei(&(!a.clone()))));
    outs.push("r", guarded(|| ei(&(!a))));
    log.ev(json!({"prop": "C09", "op": "not", "lt": "I", "rt": "I", "src": src, "a": enc_i(a), "b": enc_i(&IBig::ZERO), "n": 0, "outs": outs.grouped()}));
}

/// queries that take no argument
fn run_query(log: &mut Log, t: &str, a: &IBig, src: &str) {
    let a_eff = if t == "U" { IBig::from(ubig_from_bytes(&mag_bytes(a).1)) } else { a.clone() };
    let res = if t == "U" {
        let x = ubig_from_bytes(&mag_bytes(&a_eff).1);
        guarded(|| json!({
            "bit_len": x.bit_len(), "count_ones": x.count_ones(), "count_zeros": opt(x.count_zeros()),
            "tz": opt(x.trailing_zeros()), "to": opt(x.trailing_ones()),
            "pow2": x.is_power_of_two(), "npow2": eu(&x.clone().next_power_of_two())}))
    } else {
        let x = a_eff.clone();
        guarded(|| json!({"bit_len": x.bit_len(), "tz": opt(x.trailing_zeros()), "to": opt(x.trailing_ones())}))
    };
    log.ev(json!({"prop": "C09", "op": "query", "lt": t, "rt": t, "src": src, "a": enc_i(&a_eff), "b": enc_i(&IBig::ZERO), "n": 0, "res": outcome(res)}));
}

/// operations addressed by a bit position
fn run_bitn(log: &mut Log, t: &str, a: &IBig, n: usize, src: &str) {
    let a_eff = if t == "U" { IBig::from(ubig_from_bytes(&mag_bytes(a).1)) } else { a.clone() };
    let res = if t == "U" {
        let x = ubig_from_bytes(&mag_bytes(&a_eff).1);
        guarded(|| {
            let mut s = x.clone();
            s.set_bit(n);
            let mut c = x.clone();
            c.clear_bit(n);
            let (lo, hi) = x.clone().split_bits(n);
            let mut h = x.clone();
            h.clear_high_bits(n);
            json!({"bit": x.bit(n), "set": eu(&s), "clear": eu(&c), "lo": eu(&lo), "hi": eu(&hi), "chb": eu(&h)})
        })
    } else {
        let x = a_eff.clone();
        guarded(|| json!({"bit": x.bit(n)}))
    };
    log.ev(json!({"prop": "C09", "op": "bitn", "lt": t, "rt": t, "src": src, "a": enc_i(&a_eff), "b": enc_i(&IBig::ZERO), "n": n, "res": outcome(res)}));
}

fn run_ones(log: &mut Log, n: usize, src: &str) {
    let res = guarded(|| eu(&UBig::ones(n)));
    log.ev(json!({"prop": "C09", "op": "ones", "lt": "U", "rt": "U", "src": src, "a": enc_i(&IBig::ZERO), "b": enc_i(&IBig::ZERO), "n": n, "res": outcome(res)}));
}

fn run_case(log: &mut Log, op: &str, lt: &str, rt: &str, a: &IBig, b: &IBig, n: usize, src: &str) {
    match op {
        "and" | "or" | "xor" => run_binary(log, op, lt, rt, a, b, src),
        "shl" | "shr" => run_shift(log, op, lt, a, n, src),
        "not" => run_not(log, a, src),
        "query" => run_query(log, lt, a, src),
        "bitn" => run_bitn(log, lt, a, n, src),
        "ones" => run_ones(log, n, src),
        _ => panic!("unknown op {}", op),
    }
}

const POSITIONS: &[usize] = &[0, 1, 7, 8, 31, 32, 63, 64, 65, 127, 128, 129, 191, 192, 193, 200, 255, 256, 320];

fn main() {
    let args = &start();
    let mut log = Log::create(&args.out);
    let mut rng = Rng::new(args.seed);
    if let Some(path) = &args.cases {
        for c in read_cases(path) {
            run_case(&mut log, c["op"].as_str().unwrap(), c["lt"].as_str().unwrap(), c["rt"].as_str().unwrap(),
                &dec_i(&c["a"]), &dec_i(&c["b"]), c["n"].as_u64().unwrap_or(0) as usize, "gen");
        }
    }
    let pairs = [("U", "U"), ("I", "I"), ("I", "I"), ("U", "I"), ("I", "U")];
    for _ in 0..args.n {
        let (lt, rt) = *rng.pick(&pairs);
        let a = random_ibig(&mut rng, args.max_words);
        let b = match rng.below(8) {
            0 => a.clone(),
            1 => guarded_or(a.clone(), || !a.clone()),
            2 => random_ibig(&mut rng, 2),
            _ => random_ibig(&mut rng, args.max_words),
        };
        let n = if rng.coin() { *rng.pick(POSITIONS) } else { rng.below(64 * args.max_words as u64 + 70) as usize };
        match rng.below(12) {
            0 | 1 => run_binary(&mut log, "and", lt, rt, &a, &b, "rnd"),
            2 | 3 => run_binary(&mut log, "or", lt, rt, &a, &b, "rnd"),
            4 | 5 => run_binary(&mut log, "xor", lt, rt, &a, &b, "rnd"),
            6 => run_shift(&mut log, "shl", lt, &a, n, "rnd"),
            7 | 8 => run_shift(&mut log, "shr", lt, &a, n, "rnd"),
            9 => {
                run_not(&mut log, &a, "rnd");
                run_query(&mut log, lt, &a, "rnd");
            }
            10 => run_bitn(&mut log, lt, &a, n, "rnd"),
            _ => {
                run_ones(&mut log, n, "rnd");
                run_query(&mut log, lt, &b, "rnd");
            }
        }
    }
    let n = log.finish();
    eprintln!("c09: {} events", n);
}
