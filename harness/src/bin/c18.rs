//! C18: simplest_in, next_up / next_down / nearest, is_simpler_than, simplest_from_f32 / f64 / float.
//!
//! One event per call.  No oracle: operands are built from bytes / bit fields, the library is
//! called, the answer is written back.  Every event carries all operand fields (defaults when
//! unused) so that it is a valid case for `--cases`.
use dashu_base::{Approximation, Sign};
use dashu_float::FBig;
use dashu_int::{IBig, UBig};
use dashu_ratio::RBig;
use dashu_verif_harness::common::*;
use dashu_verif_harness::fwire::*;
use dashu_verif_harness::{dispatch_base, dispatch_mode};
use serde_json::{json, Value};

fn zero_i() -> Value {
    json!({"s": 0, "m": []})
}
fn q0() -> Value {
    json!({"num": zero_i(), "den": {"s": 0, "m": [1]}})
}
fn fl0() -> Value {
    json!({"fmt": "f32", "sg": 0, "be": 0, "mf": [0, 0]})
}
fn f0() -> Value {
    json!({"sig": zero_i(), "exp": 0, "inf": 0, "prec": 1})
}
fn res(some: u8, r: Option<&RBig>, flag: &str, b: u8) -> Value {
    match r {
        Some(r) => json!({"some": some, "num": enc_i(r.numerator()), "den": enc_u(r.denominator()), "flag": flag, "bool": b}),
        None => json!({"some": some, "num": zero_i(), "den": {"s": 0, "m": [1]}, "flag": flag, "bool": b}),
    }
}
fn f32_of(fl: &Value) -> f32 {
    let mf: Vec<u32> = fl["mf"].as_array().unwrap().iter().map(|x| x.as_u64().unwrap() as u32).collect();
    let mant = (mf[0] & 0xffff) | ((mf[1] & 0x7f) << 16);
    let bits = ((fl["sg"].as_u64().unwrap() as u32) << 31) | ((fl["be"].as_u64().unwrap() as u32 & 0xff) << 23) | mant;
    f32::from_bits(bits)
}
fn f64_of(fl: &Value) -> f64 {
    let mf: Vec<u64> = fl["mf"].as_array().unwrap().iter().map(|x| x.as_u64().unwrap()).collect();
    let mant = (mf[0] & 0xffff) | ((mf[1] & 0xffff) << 16) | ((mf[2] & 0xffff) << 32) | ((mf[3] & 0xf) << 48);
    let bits = (fl["sg"].as_u64().unwrap() << 63) | ((fl["be"].as_u64().unwrap() & 0x7ff) << 52) | mant;
    f64::from_bits(bits)
}
fn fl_of_f32(x: f32) -> Value {
    let b = x.to_bits();
    json!({"fmt": "f32", "sg": b >> 31, "be": (b >> 23) & 0xff, "mf": [b & 0xffff, (b >> 16) & 0x7f]})
}
fn fl_of_f64(x: f64) -> Value {
    let b = x.to_bits();
    json!({"fmt": "f64", "sg": b >> 63, "be": (b >> 52) & 0x7ff,
           "mf": [b & 0xffff, (b >> 16) & 0xffff, (b >> 32) & 0xffff, (b >> 48) & 0xf]})
}

fn from_float_call(base: u64, mode: &str, f: &Value) -> Result<Value, String> {
    dispatch_base!(base, B => dispatch_mode!(mode, R => {
        let x: FBig<R, B> = dec_f::<R, B>(f);
        guarded(|| match RBig::simplest_from_float(&x) {
            Some(r) => res(1, Some(&r), "", 0),
            None => res(0, None, "", 0),
        })
    }))
}

/// executes one case and logs the event
fn run_case(log: &mut Log, c: &Value, from: &str) {
    let op = c["op"].as_str().unwrap();
    let mut ev = json!({"prop": "C18", "op": op, "from": from,
        "a": if c["a"].is_object() { c["a"].clone() } else { q0() },
        "b": if c["b"].is_object() { c["b"].clone() } else { q0() },
        "lim": if c["lim"].is_object() { c["lim"].clone() } else { zero_i() },
        "fl": if c["fl"].is_object() { c["fl"].clone() } else { fl0() },
        "f": if c["f"].is_object() { c["f"].clone() } else { f0() },
        "base": c["base"].as_u64().unwrap_or(2), "mode": c["mode"].as_str().unwrap_or("HalfEven")});
    let out = match op {
        "simplest_in" => {
            let (a, b) = (dec_r(&ev["a"]), dec_r(&ev["b"]));
            // the operands as the library holds them (from_parts reduces)
            ev["a"] = enc_r(&a);
            ev["b"] = enc_r(&b);
            guarded(|| res(1, Some(&RBig::simplest_in(a.clone(), b.clone())), "", 0))
        }
        "next_up" | "next_down" | "nearest" => {
            let a = dec_r(&ev["a"]);
            ev["a"] = enc_r(&a);
            let lim: UBig = dec_u(&ev["lim"]);
            match op {
                "next_up" => guarded(|| res(1, Some(&a.next_up(&lim)), "", 0)),
                "next_down" => guarded(|| res(1, Some(&a.next_down(&lim)), "", 0)),
                _ => guarded(|| match a.nearest(&lim) {
                    Approximation::Exact(r) => res(1, Some(&r), "Exact", 0),
                    Approximation::Inexact(r, Sign::Positive) => res(1, Some(&r), "Positive", 0),
                    Approximation::Inexact(r, Sign::Negative) => res(1, Some(&r), "Negative", 0),
                }),
            }
        }
        "is_simpler_than" => {
            let (a, b) = (dec_r(&ev["a"]), dec_r(&ev["b"]));
            ev["a"] = enc_r(&a);
            ev["b"] = enc_r(&b);
            guarded(|| res(1, None, "", a.is_simpler_than(&b) as u8))
        }
        "simplest_from_f32" => {
            let x = f32_of(&ev["fl"]);
            ev["fl"] = fl_of_f32(x);
            guarded(|| match RBig::simplest_from_f32(x) {
                Some(r) => res(1, Some(&r), "", 0),
                None => res(0, None, "", 0),
            })
        }
        "simplest_from_f64" => {
            let x = f64_of(&ev["fl"]);
            ev["fl"] = fl_of_f64(x);
            guarded(|| match RBig::simplest_from_f64(x) {
                Some(r) => res(1, Some(&r), "", 0),
                None => res(0, None, "", 0),
            })
        }
        "simplest_from_float" => {
            let base = ev["base"].as_u64().unwrap();
            let mode = ev["mode"].as_str().unwrap().to_string();
            let f = ev["f"].clone();
            from_float_call(base, &mode, &f)
        }
        other => panic!("unknown op {}", other),
    };
    ev["out"] = outcome(out);
    log.ev(ev);
}

// ---------------------------------------------------------------- random cases
fn nz(u: UBig) -> UBig {
    if u.is_zero() {
        UBig::ONE
    } else {
        u
    }
}
fn wire_q(n: &IBig, d: &UBig) -> Value {
    json!({"num": enc_i(n), "den": enc_u(d)})
}
fn rand_q(rng: &mut Rng, maxw: usize) -> (IBig, UBig) {
    match rng.below(8) {
        0 => (IBig::from(rng.range(-20, 20)), UBig::ONE),
        1 => (IBig::from(rng.range(-40, 40)), nz(UBig::from(rng.below(15) as u8))),
        2 => (IBig::ZERO, UBig::ONE),
        _ => (random_ibig(rng, maxw), nz(random_ubig(rng, maxw))),
    }
}
fn random_case(rng: &mut Rng, maxw: usize) -> Value {
    let k = rng.below(100);
    if k < 30 {
        let (n, d) = rand_q(rng, maxw);
        let (n2, d2) = match rng.below(6) {
            0 => (n.clone(), d.clone()),                                   // equal endpoints
            1 => (-n.clone(), d.clone()),                                  // straddling zero
            2 => (IBig::ZERO, UBig::ONE),                                  // zero endpoint
            // a close neighbour: n/d +- 1/(d*t)
            3 | 4 => {
                let t = nz(random_ubig(rng, 1));
                let s = if rng.coin() { IBig::ONE } else { IBig::NEG_ONE };
                (&n * IBig::from(t.clone()) + s, &d * t)
            }
            _ => rand_q(rng, maxw),
        };
        json!({"op": "simplest_in", "a": wire_q(&n, &d), "b": wire_q(&n2, &d2)})
    } else if k < 60 {
        // the mediant walk of farey_neighbors takes up to `limit` steps: limits stay below 2^16
        let lim: u64 = match rng.below(4) {
            0 => 1,
            1 => 1 + rng.below(20),
            _ => 1 + rng.below(65535),
        };
        let (n, d) = match rng.below(6) {
            // denominators around the limit (fits / just does not fit / multiple of it)
            0 => (random_ibig(rng, 1), UBig::from(lim)),
            1 => (random_ibig(rng, 1), UBig::from(lim + 1 + rng.below(3))),
            2 => (random_ibig(rng, 1), nz(UBig::from(lim / (1 + rng.below(5))))),
            3 => (random_ibig(rng, 2), UBig::from(lim) * UBig::from(1 + rng.below(9))),
            _ => rand_q(rng, maxw),
        };
        let op = *rng.pick(&["next_up", "next_down", "nearest"]);
        json!({"op": op, "a": wire_q(&n, &d), "lim": enc_u(&UBig::from(lim))})
    } else if k < 70 {
        let (n, d) = rand_q(rng, maxw.min(2));
        let (n2, d2) = match rng.below(4) {
            0 => (-n.clone(), d.clone()),
            1 => (random_ibig(rng, 1), d.clone()),
            2 => (n.clone(), nz(random_ubig(rng, 1))),
            _ => rand_q(rng, maxw.min(2)),
        };
        json!({"op": "is_simpler_than", "a": wire_q(&n, &d), "b": wire_q(&n2, &d2)})
    } else if k < 80 {
        let x: f32 = match rng.below(8) {
            0 => f32::from_bits(rng.next() as u32),
            1 => (rng.range(-60, 60) as f32) / (1 + rng.below(60)) as f32,
            2 => f32::from_bits((rng.below(255) as u32) << 23 | ((rng.below(2) as u32) << 31)), // powers of two
            3 => f32::from_bits(rng.below(1 << 23) as u32),                                     // subnormal
            4 => *rng.pick(&[0.0f32, -0.0, f32::INFINITY, f32::NEG_INFINITY, f32::NAN, f32::MAX, f32::MIN_POSITIVE, 1.0, -1.0]),
            5 => (rng.next() as u32 >> rng.below(8)) as f32,                                     // large integers
            6 => f32::from_bits(((150 + rng.below(6) as u32) << 23) | (rng.next() as u32 & 0x7fffff)),
            _ => std::f32::consts::PI * (rng.range(-9, 9) as f32),
        };
        json!({"op": "simplest_from_f32", "fl": fl_of_f32(x)})
    } else if k < 90 {
        let x: f64 = match rng.below(8) {
            0 => f64::from_bits(rng.next()),
            1 => (rng.range(-300, 300) as f64) / (1 + rng.below(300)) as f64,
            2 => f64::from_bits((rng.below(2047)) << 52 | (rng.below(2) << 63)),
            3 => f64::from_bits(rng.below(1 << 52)),
            4 => *rng.pick(&[0.0f64, -0.0, f64::INFINITY, f64::NEG_INFINITY, f64::NAN, f64::MAX, f64::MIN_POSITIVE, 1.0, -1.0]),
            5 => (rng.next() >> rng.below(12)) as f64,
            6 => f64::from_bits(((1075 + rng.below(6)) << 52) | (rng.next() & ((1 << 52) - 1))),
            _ => std::f64::consts::E * (rng.range(-9, 9) as f64),
        };
        json!({"op": "simplest_from_f64", "fl": fl_of_f64(x)})
    } else {
        let base = *rng.pick(&[2u64, 10, 16]);
        let pmax = if rng.coin() { 4 } else { 12 };
        let prec = 1 + rng.below(pmax) as u32;
        // at most `prec` digits
        let mut sig = IBig::ZERO;
        let nd = 1 + rng.below(prec as u64);
        for i in 0..nd {
            let d = if i == 0 { 1 + rng.below(base - 1) } else { rng.below(base) };
            sig = sig * IBig::from(base) + IBig::from(d);
        }
        if rng.coin() {
            sig = -sig;
        }
        if rng.below(25) == 0 {
            sig = IBig::ZERO;
        }
        let exp = rng.range(-8, 8);
        let mode = *rng.pick(MODES);
        let inf = if rng.below(40) == 0 { 1 } else { 0 };
        json!({"op": "simplest_from_float", "base": base, "mode": mode,
               "f": {"sig": enc_i(&sig), "exp": exp, "inf": inf, "prec": prec}})
    }
}

fn main() {
    let args = &start();
    let mut log = Log::create(&args.out);
    let mut rng = Rng::new(args.seed);
    if let Some(path) = &args.cases {
        for c in read_cases(path) {
            let from = c["from"].as_str().unwrap_or("gen").to_string();
            run_case(&mut log, &c, &from);
        }
    }
    for _ in 0..args.n {
        let c = random_case(&mut rng, args.max_words.max(1));
        run_case(&mut log, &c, "rnd");
    }
    let n = log.finish();
    eprintln!("c18: {} events", n);
}
