//! C08: float text I/O (parse, print, print->parse), base / precision changes, import of f32/f64.
//!
//! No oracle here: every case is executed through the public API and what came back is logged.
//! Text travels as arrays of byte codes.  Events are valid cases (same field names).
//!
//! Case kinds (`op`):
//!   parse    {base, text}                                   -> outs [{forms, out {k, v | kind}}]
//!   print    {base, mode, x, kind, fprec}                   -> outs [{forms, out {k, text, back {k, v}}}]
//!   convert  {base, mode, x, fn, tbase, tprec}              -> out {k, v, flag}
//!   from_f   {ty: "f32" | "f64", bits: [16-bit fields, most significant first]} -> outs [{forms, out}]
//! Float value x / v: {sig: {s, m}, exp, inf, prec}.
#![allow(deprecated)]
use dashu_base::{Approximation, ConversionError, ParseError};
use dashu_float::round::mode::HalfEven;
use dashu_float::{FBig, Repr};
use dashu_int::{IBig, Word};
use dashu_verif_harness::common::*;
use dashu_verif_harness::forms::*;
use dashu_verif_harness::fwire::*;
use dashu_verif_harness::{dispatch_base, dispatch_mode};
use serde_json::{json, Value};
use std::convert::TryFrom;
use std::fmt::{Display, LowerExp, UpperExp};
use std::str::FromStr;

fn bytes_of(v: &Value) -> Vec<u8> {
    v.as_array().map(|a| a.iter().map(|b| b.as_u64().unwrap() as u8).collect()).unwrap_or_default()
}
fn perr(e: ParseError) -> &'static str {
    match e {
        ParseError::NoDigits => "NoDigits",
        ParseError::InvalidDigit => "InvalidDigit",
        ParseError::UnsupportedRadix => "UnsupportedRadix",
        ParseError::InconsistentRadix => "InconsistentRadix",
    }
}
fn pout(r: Result<Result<Value, ParseError>, String>) -> Value {
    match r {
        Ok(Ok(v)) => json!({"k": "ok", "v": v}),
        Ok(Err(e)) => json!({"k": "err", "kind": perr(e)}),
        Err(m) => json!({"k": "panic", "msg": m}),
    }
}

// ---------------------------------------------------------------- parse
fn parse_forms<const B: Word>(s: &str) -> Outs {
    let mut outs = Outs::new();
    type F<const B: Word> = FBig<HalfEven, B>;
    outs.0.push(("from_str".into(), pout(guarded(|| F::<B>::from_str(s).map(|v| enc_f(&v))))));
    outs.0.push(("parse".into(), pout(guarded(|| s.parse::<F<B>>().map(|v| enc_f(&v))))));
    outs.0.push(("from_str_native".into(), pout(guarded(|| F::<B>::from_str_native(s).map(|v| enc_f(&v))))));
    outs.0.push((
        "repr_from_str_native".into(),
        pout(guarded(|| {
            Repr::<B>::from_str_native(s).map(|(r, n)| {
                let mut v = enc_repr(&r);
                v["prec"] = json!(n);
                v
            })
        })),
    ));
    outs
}
fn run_parse(log: &mut Log, base: u64, text: &[u8], src: &str) {
    let s = std::str::from_utf8(text).expect("harness: case text is not UTF-8");
    let outs = dispatch_base!(base, B => parse_forms::<B>(s));
    log.ev(json!({"prop": "C08", "op": "parse", "base": base, "text": text, "src": src, "outs": outs.grouped()}));
}

// ---------------------------------------------------------------- print
fn fmt_std<T: Display + LowerExp + UpperExp>(v: &T, kind: &str, fprec: Option<usize>) -> String {
    match (kind, fprec) {
        ("display", None) => format!("{}", v),
        ("display", Some(p)) => format!("{:.p$}", v, p = p),
        ("lexp", None) => format!("{:e}", v),
        ("lexp", Some(p)) => format!("{:.p$e}", v, p = p),
        ("uexp", None) => format!("{:E}", v),
        ("uexp", Some(p)) => format!("{:.p$E}", v, p = p),
        _ => panic!("harness: kind {} is not available in this base", kind),
    }
}
/// layout forms (beyond C08: the statement is about digits, not padding): the same value and precision printed with a width and
/// fill / alignment / sign / zero flags; the monitor compares each with the unpadded text laid out as core::fmt pads numbers
fn pad_forms<T: Display + LowerExp>(v: &T, kind: &str, fprec: Option<usize>) -> Value {
    let sci = kind != "display";
    let plain = guarded(|| match (sci, fprec) {
        (false, None) => format!("{}", v), (false, Some(p)) => format!("{:.p$}", v, p = p),
        (true, None) => format!("{:e}", v), (true, Some(p)) => format!("{:.p$e}", v, p = p) });
    let plus = guarded(|| match (sci, fprec) {
        (false, None) => format!("{:+}", v), (false, Some(p)) => format!("{:+.p$}", v, p = p),
        (true, None) => format!("{:+e}", v), (true, Some(p)) => format!("{:+.p$e}", v, p = p) });
    let none = json!({"plain": [], "plus": [], "items": []});
    let (plain, plus) = match (plain, plus) { (Ok(a), Ok(b)) => (a, b), _ => return none };
    if plain.len() > 60 {
        return none;
    }
    let mut items = Vec::new();
    macro_rules! form {
        ($name:literal, $align:literal, $fill:literal, $plus:literal, $zero:literal, $spec:literal, $w:expr) => {{
            let w: usize = $w;
            let r = guarded(|| match (sci, fprec) {
                (false, None) => format!(concat!("{:", $spec, "w$}"), v, w = w),
                (false, Some(p)) => format!(concat!("{:", $spec, "w$.p$}"), v, w = w, p = p),
                (true, None) => format!(concat!("{:", $spec, "w$e}"), v, w = w),
                (true, Some(p)) => format!(concat!("{:", $spec, "w$.p$e}"), v, w = w, p = p),
            });
            items.push(json!({"form": $name, "align": $align, "fill": $fill as u8, "plus": $plus, "zero": $zero, "w": w,
                "out": match r { Ok(t) => json!({"k": "ok", "text": t.as_bytes()}), Err(m) => json!({"k": "panic", "msg": m}) }}));
        }};
    }
    for dw in [0usize, 1, 4] {
        let w = plain.len() + dw;
        form!("n", "n", b' ', false, false, "", w);
        form!("r", "r", b' ', false, false, ">", w);
        form!("l", "l", b'*', false, false, "*<", w);
        form!("c", "c", b'_', false, false, "_^", w + 1);
        form!("p", "n", b' ', true, false, "+", w + 1);
        // (the zero flag together with an explicit alignment is left out: the scientific formats then pad with the fill
        //  character on the aligned side while Display pads with zeros - neither is stated anywhere)
        form!("z", "n", b' ', false, true, "0", w);
        form!("pz", "n", b' ', true, true, "+0", w + 2);
    }
    json!({"plain": plain.as_bytes(), "plus": plus.as_bytes(), "items": items})
}
/// print, then (for the record) parse the text back with the library
fn print_out<const B: Word>(text: Result<String, String>) -> Value {
    match text {
        Ok(s) => {
            let back = pout(guarded(|| FBig::<HalfEven, B>::from_str(&s).map(|v| enc_f(&v))));
            json!({"k": "ok", "text": s.as_bytes(), "back": back})
        }
        Err(m) => json!({"k": "panic", "msg": m}),
    }
}
fn run_print(log: &mut Log, c: &Value, src: &str) {
    let base = c["base"].as_u64().unwrap();
    let mode = c["mode"].as_str().unwrap();
    let kind = c["kind"].as_str().unwrap();
    let fp = c["fprec"].as_i64().unwrap_or(-1);
    let fprec = if fp < 0 { None } else { Some(fp as usize) };
    let mut outs = Outs::new();
    let mut pads = json!({"plain": [], "plus": [], "items": []});
    let mut xobs = c["x"].clone();
    let std_kind = matches!(kind, "display" | "lexp" | "uexp");
    dispatch_mode!(mode, R => {
        if std_kind {
            dispatch_base!(base, B => {
                let built = guarded(|| dec_f::<R, B>(&c["x"]));
                match built {
                    Ok(x) => {
                        xobs = enc_f(&x);
                        outs.0.push(("fbig".into(), print_out::<B>(guarded(|| fmt_std(&x, kind, fprec)))));
                        if kind != "uexp" {
                            pads = pad_forms(&x, kind, fprec);
                        }
                        // Repr has no rounding mode of its own (documented: rounds toward zero)
                        if fprec.is_none() || mode == "Zero" {
                            outs.0.push(("repr".into(), print_out::<B>(guarded(|| fmt_std(x.repr(), kind, fprec)))));
                        }
                    }
                    Err(m) => outs.0.push(("construct".into(), json!({"k": "panic", "msg": m}))),
                }
            })
        } else {
            macro_rules! spec {
                ($b:literal, $fmt:literal) => {{
                    let x = dec_f::<R, $b>(&c["x"]);
                    xobs = enc_f(&x);
                    let f = |p: Option<usize>| match p {
                        None => format!(concat!("{:", $fmt, "}"), x),
                        Some(p) => format!(concat!("{:.p$", $fmt, "}"), x, p = p),
                    };
                    let g = |p: Option<usize>| match p {
                        None => format!(concat!("{:", $fmt, "}"), x.repr()),
                        Some(p) => format!(concat!("{:.p$", $fmt, "}"), x.repr(), p = p),
                    };
                    outs.0.push(("fbig".into(), print_out::<$b>(guarded(|| f(fprec)))));
                    if fprec.is_none() || mode == "Zero" {
                        outs.0.push(("repr".into(), print_out::<$b>(guarded(|| g(fprec)))));
                    }
                }};
            }
            match (base, kind) {
                (2, "binary") => spec!(2, "b"),
                (2, "lhex") => spec!(2, "x"),
                (2, "uhex") => spec!(2, "X"),
                (8, "octal") => spec!(8, "o"),
                (16, "lhex") => spec!(16, "x"),
                (16, "uhex") => spec!(16, "X"),
                _ => panic!("harness: kind {} is not available in base {}", kind, base),
            }
        }
    });
    log.ev(json!({"prop": "C08", "op": "print", "base": base, "mode": mode, "x": xobs, "kind": kind, "fprec": fp,
        "src": src, "outs": outs.grouped(), "pads": pads}));
}

// ---------------------------------------------------------------- convert
fn conv_out<R: dashu_float::round::Round, const B: Word>(
    r: Result<Approximation<FBig<R, B>, dashu_float::round::Rounding>, String>,
) -> Value {
    match r {
        Ok(a) => {
            let v = enc_rounded_f(&a);
            json!({"k": "ok", "v": v["v"], "flag": v["flag"]})
        }
        Err(m) => json!({"k": "panic", "msg": m}),
    }
}
fn run_convert(log: &mut Log, c: &Value, src: &str) {
    let base = c["base"].as_u64().unwrap();
    let mode = c["mode"].as_str().unwrap();
    let func = c["fn"].as_str().unwrap();
    let tbase = c["tbase"].as_u64().unwrap_or(base);
    let tprec = c["tprec"].as_u64().unwrap_or(0) as usize;
    // base pairs outside the general base list: a base and its power where the root is not 2 (3 <-> 9, 6 <-> 36, 3 -> 27)
    macro_rules! pair {
        ($B:literal, $T:literal) => {
            dispatch_mode!(mode, R => {
                match guarded(|| dec_f::<R, $B>(&c["x"])) {
                    Err(m) => (json!({"k": "panic", "msg": format!("harness-construct: {}", m)}), c["x"].clone()),
                    Ok(x) => (match func {
                        "with_base_and_precision" => conv_out(guarded(|| x.clone().with_base_and_precision::<$T>(tprec))),
                        _ => conv_out(guarded(|| x.clone().with_base::<$T>())),
                    }, enc_f(&x)),
                }
            })
        };
    }
    let special: Option<(Value, Value)> = match (base, tbase) {
        (3, 9) => Some(pair!(3, 9)),
        (9, 3) => Some(pair!(9, 3)),
        (3, 27) => Some(pair!(3, 27)),
        (6, 36) => Some(pair!(6, 36)),
        (36, 6) => Some(pair!(36, 6)),
        (4, 32) => Some(pair!(4, 32)),
        (32, 4) => Some(pair!(32, 4)),
        (4, 8) => Some(pair!(4, 8)),
        (8, 32) => Some(pair!(8, 32)),
        _ => None,
    };
    if let Some((out, xobs)) = special {
        log.ev(json!({"prop": "C08", "op": "convert", "base": base, "mode": mode, "x": xobs, "fn": func, "tbase": tbase,
            "tprec": tprec, "src": src, "out": out}));
        return;
    }
    // the operand is logged as observed after construction (Repr::new strips trailing zero digits)
    let (out, xobs): (Value, Value) = dispatch_mode!(mode, R => {
        dispatch_base!(base, B => {
            match guarded(|| dec_f::<R, B>(&c["x"])) {
                Err(m) => (json!({"k": "panic", "msg": format!("harness-construct: {}", m)}), c["x"].clone()),
                Ok(x) => (match func {
                    "with_precision" => conv_out(guarded(|| x.clone().with_precision(tprec))),
                    "to_decimal" => conv_out(guarded(|| x.to_decimal())),
                    "to_binary" => conv_out(guarded(|| x.to_binary())),
                    "with_base" => dispatch_base!(tbase, T => conv_out(guarded(|| x.clone().with_base::<T>()))),
                    "with_base_and_precision" => {
                        dispatch_base!(tbase, T => conv_out(guarded(|| x.clone().with_base_and_precision::<T>(tprec))))
                    }
                    other => panic!("harness: unknown conversion {}", other),
                }, enc_f(&x)),
            }
        })
    });
    log.ev(json!({"prop": "C08", "op": "convert", "base": base, "mode": mode, "x": xobs, "fn": func, "tbase": tbase,
        "tprec": tprec, "src": src, "out": out}));
}

// ---------------------------------------------------------------- from f32 / f64
fn cerr(e: ConversionError) -> &'static str {
    match e {
        ConversionError::OutOfBounds => "OutOfBounds",
        ConversionError::LossOfPrecision => "LossOfPrecision",
    }
}
fn cout(r: Result<Result<Value, ConversionError>, String>) -> Value {
    match r {
        Ok(Ok(v)) => json!({"k": "ok", "v": v}),
        Ok(Err(e)) => json!({"k": "err", "kind": cerr(e)}),
        Err(m) => json!({"k": "panic", "msg": m}),
    }
}
fn run_from_f(log: &mut Log, ty: &str, fields: &[u64], src: &str) {
    let mut outs = Outs::new();
    type F = FBig<HalfEven, 2>;
    if ty == "f32" {
        let bits = ((fields[0] as u32) << 16) | fields[1] as u32;
        let f = f32::from_bits(bits);
        outs.0.push(("fbig".into(), cout(guarded(|| F::try_from(f).map(|v| enc_f(&v))))));
        outs.0.push(("repr".into(), cout(guarded(|| Repr::<2>::try_from(f).map(|v| enc_repr(&v))))));
    } else {
        let bits = (fields[0] << 48) | (fields[1] << 32) | (fields[2] << 16) | fields[3];
        let f = f64::from_bits(bits);
        outs.0.push(("fbig".into(), cout(guarded(|| F::try_from(f).map(|v| enc_f(&v))))));
        outs.0.push(("repr".into(), cout(guarded(|| Repr::<2>::try_from(f).map(|v| enc_repr(&v))))));
    }
    // the two forms differ in the "prec" field only: keep them as separate groups
    log.ev(json!({"prop": "C08", "op": "from_f", "ty": ty, "bits": fields, "src": src, "outs": outs.grouped()}));
}

fn run_case(log: &mut Log, c: &Value, src: &str) {
    match c["op"].as_str().unwrap() {
        "parse" => run_parse(log, c["base"].as_u64().unwrap(), &bytes_of(&c["text"]), src),
        "print" => run_print(log, c, src),
        "convert" => run_convert(log, c, src),
        "from_f" => {
            let f: Vec<u64> = c["bits"].as_array().unwrap().iter().map(|x| x.as_u64().unwrap()).collect();
            run_from_f(log, c["ty"].as_str().unwrap(), &f, src)
        }
        other => panic!("harness: unknown op {}", other),
    }
}

// ---------------------------------------------------------------- seeded random driver
fn digit_char(d: u32, upper: bool) -> char {
    let c = std::char::from_digit(d, 36).unwrap();
    if upper {
        c.to_ascii_uppercase()
    } else {
        c
    }
}
fn random_digits(rng: &mut Rng, base: u32, n: usize, underscores: bool) -> String {
    let mut s = String::new();
    for i in 0..n {
        if underscores && i > 0 && rng.below(5) == 0 {
            s.push('_');
        }
        s.push(digit_char(rng.below(base as u64) as u32, rng.below(4) == 0));
    }
    s
}
/// a derivation of the documented float grammar in base `base`
fn random_float_text(rng: &mut Rng, base: u32) -> String {
    let mut s = String::new();
    match rng.below(4) {
        0 => s.push('+'),
        1 => s.push('-'),
        _ => {}
    }
    let hex = base == 2 && rng.below(3) == 0;
    let dbase = if hex { 16 } else { base };
    if hex {
        s.push_str("0x");
    }
    let us = rng.below(3) == 0;
    let ni = rng.below(12) as usize;
    let nf = rng.below(12) as usize;
    let dot = rng.below(4) > 0;
    let (ni, nf) = if ni == 0 && (nf == 0 || !dot) { (1, nf) } else { (ni, nf) };
    s.push_str(&random_digits(rng, dbase, ni, us));
    if dot {
        s.push('.');
        s.push_str(&random_digits(rng, dbase, nf, us));
    }
    if rng.below(3) > 0 {
        let marker: &[char] = match (base, hex) {
            (_, true) => &['p', 'P'],
            (10, _) => &['e', 'E', '@'],
            (2, _) => &['b', 'B', '@'],
            (8, _) => &['o', 'O', '@'],
            (16, _) => &['h', 'H', '@'],
            _ => &['@'],
        };
        s.push(*rng.pick(marker));
        let e = if rng.below(4) == 0 { rng.range(-400, 400) } else { rng.range(-30, 30) };
        if e >= 0 && rng.coin() {
            s.push('+');
        }
        s.push_str(&e.to_string());
    }
    s
}
/// random float {sig, exp, prec} in `base` with at most `maxd` significant digits
fn random_float(rng: &mut Rng, base: u64, maxd: usize, maxe: i64) -> Value {
    let nd = 1 + rng.below(maxd as u64) as usize;
    let mut sig = IBig::from(0);
    for i in 0..nd {
        let d = if i == 0 { 1 + rng.below(base - 1) } else if rng.below(5) == 0 { 0 } else { rng.below(base) };
        sig = sig * IBig::from(base) + IBig::from(d);
    }
    if rng.below(12) == 0 {
        sig = IBig::from(0);
    }
    if rng.coin() {
        sig = -sig;
    }
    let exp = if rng.below(3) == 0 { rng.range(-maxe, maxe) } else { rng.range(-(nd as i64) - 6, 8) };
    let prec = nd + if rng.coin() { 0 } else { rng.below(6) as usize };
    json!({"sig": enc_i(&sig), "exp": exp, "inf": 0, "prec": prec})
}

fn main() {
    let args = &start();
    let mut log = Log::create(&args.out);
    let mut rng = Rng::new(args.seed);
    if let Some(path) = &args.cases {
        for c in read_cases(path) {
            run_case(&mut log, &c, "gen");
        }
    }
    let maxe = args.extra.iter().position(|a| a == "--max-exp").map(|i| args.extra[i + 1].parse::<i64>().unwrap()).unwrap_or(60);
    let maxd = args.max_words.max(1); // significant digits
    for _ in 0..args.n {
        let k = rng.below(100);
        let base = *rng.pick(BASES);
        let mode = *rng.pick(MODES);
        if k < 20 {
            let s = random_float_text(&mut rng, base as u32);
            run_parse(&mut log, base, s.as_bytes(), "rnd");
        } else if k < 40 {
            // print -> parse, every format the base has
            let x = random_float(&mut rng, base, maxd, maxe);
            let mut kinds = vec!["display", "display", "lexp", "uexp"];
            match base {
                2 => kinds.extend_from_slice(&["binary", "lhex", "uhex"]),
                8 => kinds.push("octal"),
                16 => kinds.extend_from_slice(&["lhex", "uhex"]),
                _ => {}
            }
            let kind = *rng.pick(&kinds);
            run_print(&mut log, &json!({"base": base, "mode": mode, "x": x, "kind": kind, "fprec": -1}), "rnd");
        } else if k < 60 {
            // precision option
            let x = random_float(&mut rng, base, maxd, 12);
            let kind = *rng.pick(&["display", "display", "lexp", "uexp"]);
            let fprec = rng.below(maxd as u64 + 4) as i64;
            run_print(&mut log, &json!({"base": base, "mode": mode, "x": x, "kind": kind, "fprec": fprec}), "rnd");
        } else if k < 90 {
            let x = random_float(&mut rng, base, maxd, maxe);
            let func = *rng.pick(&["with_precision", "with_base", "with_base", "with_base_and_precision", "with_base_and_precision", "to_decimal", "to_binary"]);
            let tbase = *rng.pick(BASES);
            let tprec = 1 + rng.below(maxd as u64 + 3);
            run_convert(&mut log, &json!({"base": base, "mode": mode, "x": x, "fn": func, "tbase": tbase, "tprec": tprec}), "rnd");
        } else {
            if rng.coin() {
                let mut bits = rng.next() as u32;
                match rng.below(8) {
                    0 => bits &= 0x807f_ffff,              // subnormal / zero
                    1 => bits |= 0x7f80_0000,              // inf / nan
                    2 => bits &= 0xff80_0000,              // power of two
                    _ => {}
                }
                run_from_f(&mut log, "f32", &[(bits >> 16) as u64, (bits & 0xffff) as u64], "rnd");
            } else {
                let mut bits = rng.next();
                match rng.below(8) {
                    0 => bits &= 0x800f_ffff_ffff_ffff,
                    1 => bits |= 0x7ff0_0000_0000_0000,
                    2 => bits &= 0xfff0_0000_0000_0000,
                    _ => {}
                }
                run_from_f(&mut log, "f64", &[bits >> 48, (bits >> 32) & 0xffff, (bits >> 16) & 0xffff, bits & 0xffff], "rnd");
            }
        }
    }
    let n = log.finish();
    eprintln!("c08: {} events", n);
}
