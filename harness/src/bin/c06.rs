//! C06: From/TryFrom conversions between primitives, UBig, IBig, FBig, RBig (with the way back),
//! the lossy conversions to_f32/to_f64/to_f*_fast/to_float/to_int, and FloatEncoding::{encode,decode}.
//!
//! No oracle here: a case names a source value and a target, the harness builds the source from
//! bytes, calls dashu in every call form, and writes back what it got.
//!
//! Typed wire values:
//!   {"t": "U"|"I"|"u8".."i128"|"usize"|"isize"|"bool", "i": {s, m}}
//!   {"t": "f32"|"f64", "b": [16-bit fields of the bit pattern, least significant first]}
//!   {"t": "F"|"FR", "base": B, "f": {sig, exp, inf, prec}}          (FBig<_, B> / Repr<B>)
//!   {"t": "R"|"RX", "num": {s, m}, "den": {s, m}}                     (RBig / Relaxed)
use dashu_base::{Approximation, ConversionError, FloatEncoding, Sign, UnsignedAbs};
use dashu_float::round::{mode, Round, Rounding};
use dashu_float::{Context, FBig, Repr};
use dashu_int::{IBig, UBig, Word};
use dashu_ratio::{RBig, Relaxed};
use dashu_verif_harness::common::*;
use dashu_verif_harness::forms::*;
use dashu_verif_harness::fwire::*;
use dashu_verif_harness::{dispatch_base, dispatch_mode};
use serde_json::{json, Value};
use std::convert::{TryFrom, TryInto};

type HE = mode::HalfEven;

// ------------------------------------------------------------------ wire helpers
fn enc_sm(neg: bool, mag: u128) -> Value {
    let mut b = mag.to_le_bytes().to_vec();
    while b.last() == Some(&0) {
        b.pop();
    }
    json!({"s": if neg && !b.is_empty() { 1 } else { 0 }, "m": b})
}
fn tv_u(x: &UBig) -> Value {
    json!({"t": "U", "i": enc_u(x)})
}
fn tv_i(x: &IBig) -> Value {
    json!({"t": "I", "i": enc_i(x)})
}
fn bits32(f: f32) -> Value {
    let b = f.to_bits();
    json!([b & 0xffff, b >> 16])
}
fn bits64(f: f64) -> Value {
    let b = f.to_bits();
    json!([b & 0xffff, (b >> 16) & 0xffff, (b >> 32) & 0xffff, b >> 48])
}
fn tv_f32(f: &f32) -> Value {
    json!({"t": "f32", "b": bits32(*f)})
}
fn tv_f64(f: &f64) -> Value {
    json!({"t": "f64", "b": bits64(*f)})
}
fn f32_of(v: &Value) -> f32 {
    let b = v["b"].as_array().unwrap();
    f32::from_bits((b[0].as_u64().unwrap() as u32) | ((b[1].as_u64().unwrap() as u32) << 16))
}
fn f64_of(v: &Value) -> f64 {
    let b = v["b"].as_array().unwrap();
    let w = |i: usize| b[i].as_u64().unwrap();
    f64::from_bits(w(0) | (w(1) << 16) | (w(2) << 32) | (w(3) << 48))
}
fn tv_fb<R: Round, const B: Word>(f: &FBig<R, B>) -> Value {
    json!({"t": "F", "base": B, "f": enc_f(f)})
}
fn tv_fr<const B: Word>(r: &Repr<B>) -> Value {
    let mut f = enc_repr(r);
    f["prec"] = json!(0);
    json!({"t": "FR", "base": B, "f": f})
}
fn tv_r(x: &RBig) -> Value {
    json!({"t": "R", "num": enc_i(x.numerator()), "den": enc_u(x.denominator())})
}
fn tv_rx(x: &Relaxed) -> Value {
    json!({"t": "RX", "num": enc_i(x.numerator()), "den": enc_u(x.denominator())})
}
fn fbig_of<R: Round, const B: Word>(v: &Value) -> FBig<R, B> {
    let repr = dec_repr::<B>(&v["f"]);
    if repr.is_infinite() {
        return FBig::from_repr(repr, Context::new(0));
    }
    let prec = v["f"]["prec"].as_u64().unwrap_or(0) as usize;
    let digits = repr.digits().max(1);
    FBig::from_repr(repr, Context::new(if prec == 0 { digits } else { prec.max(digits) }))
}
fn errname(e: ConversionError) -> &'static str {
    match e {
        ConversionError::OutOfBounds => "OutOfBounds",
        ConversionError::LossOfPrecision => "LossOfPrecision",
    }
}
fn push(outs: &mut Outs, form: &str, r: Result<Value, String>) {
    outs.0.push((
        form.to_string(),
        match r {
            Ok(v) => v,
            Err(m) => json!({"k": "panic", "msg": m}),
        },
    ));
}
/// outcome of one conversion: Ok(v) -> {k: ok, v, back}, Err(e) -> {k: err, e}
fn conv_res<T>(r: Result<T, ConversionError>, enc: impl Fn(&T) -> Value, back: impl Fn(&T) -> Value) -> Value {
    match r {
        Ok(v) => json!({"k": "ok", "v": enc(&v), "back": back(&v)}),
        Err(e) => json!({"k": "err", "e": errname(e)}),
    }
}
fn conv_ok<T>(v: T, enc: impl Fn(&T) -> Value, back: impl Fn(&T) -> Value) -> Value {
    json!({"k": "ok", "v": enc(&v), "back": back(&v)})
}
fn back_try<T>(f: impl FnOnce() -> Result<T, ConversionError>, enc: impl Fn(&T) -> Value) -> Value {
    match guarded(f) {
        Ok(Ok(v)) => json!({"k": "ok", "v": enc(&v)}),
        Ok(Err(e)) => json!({"k": "err", "e": errname(e)}),
        Err(_) => json!({"k": "panic"}),
    }
}
fn back_from<T>(f: impl FnOnce() -> T, enc: impl Fn(&T) -> Value) -> Value {
    match guarded(f) {
        Ok(v) => json!({"k": "ok", "v": enc(&v)}),
        Err(_) => json!({"k": "panic"}),
    }
}
fn back_none() -> Value {
    json!({"k": "none"})
}

// ------------------------------------------------------------------ primitive integers
trait Prim: Copy {
    const NAME: &'static str;
    fn tv(&self) -> Value;
}
macro_rules! impl_prim_u { ($($t:ident)*) => {$(
    impl Prim for $t {
        const NAME: &'static str = stringify!($t);
        fn tv(&self) -> Value { json!({"t": stringify!($t), "i": enc_sm(false, *self as u128)}) }
    }
)*}}
macro_rules! impl_prim_i { ($($t:ident)*) => {$(
    impl Prim for $t {
        const NAME: &'static str = stringify!($t);
        fn tv(&self) -> Value { json!({"t": stringify!($t), "i": enc_sm(*self < 0, self.unsigned_abs() as u128)}) }
    }
)*}}
impl_prim_u!(u8 u16 u32 u64 u128 usize);
impl_prim_i!(i8 i16 i32 i64 i128 isize);
fn ptv<T: Prim>(v: &T) -> Value {
    v.tv()
}

/// `with_uprim!(name, T => body)`: run body with the type alias T bound to the unsigned primitive `name`
macro_rules! with_uprim {
    ($name:expr, $T:ident => $body:expr) => {
        match $name {
            "u8" => { type $T = u8; $body }
            "u16" => { type $T = u16; $body }
            "u32" => { type $T = u32; $body }
            "u64" => { type $T = u64; $body }
            "u128" => { type $T = u128; $body }
            "usize" => { type $T = usize; $body }
            _ => {}
        }
    };
}
macro_rules! with_iprim {
    ($name:expr, $T:ident => $body:expr) => {
        match $name {
            "i8" => { type $T = i8; $body }
            "i16" => { type $T = i16; $body }
            "i32" => { type $T = i32; $body }
            "i64" => { type $T = i64; $body }
            "i128" => { type $T = i128; $body }
            "isize" => { type $T = isize; $body }
            _ => {}
        }
    };
}
fn is_uprim(t: &str) -> bool {
    matches!(t, "u8" | "u16" | "u32" | "u64" | "u128" | "usize")
}
fn is_iprim(t: &str) -> bool {
    matches!(t, "i8" | "i16" | "i32" | "i64" | "i128" | "isize")
}

/// big (by value and by reference) -> primitive, three spellings
macro_rules! big_to_prim {
    ($outs:expr, $x:expr, $T:ty, $back:expr) => {{
        let x = $x;
        let fin = |r: Result<$T, ConversionError>| conv_res(r, ptv::<$T>, |v| $back(*v));
        push($outs, "try_from(v)", guarded(|| fin(<$T>::try_from(x.clone()))));
        push($outs, "try_from(&)", guarded(|| fin(<$T>::try_from(x))));
        push($outs, "try_into(v)", guarded(|| fin(x.clone().try_into())));
    }};
}
/// by value only (floats, ratios)
macro_rules! val_to_prim {
    ($outs:expr, $x:expr, $T:ty, $back:expr) => {{
        let x = $x;
        let fin = |r: Result<$T, ConversionError>| conv_res(r, ptv::<$T>, |v| $back(*v));
        push($outs, "try_from(v)", guarded(|| fin(<$T>::try_from(x.clone()))));
        push($outs, "try_into(v)", guarded(|| fin(x.clone().try_into())));
    }};
}

// ------------------------------------------------------------------ conversions from each source kind
fn conv_from_u(outs: &mut Outs, x: &UBig, dt: &str, dbase: u64) {
    match dt {
        "I" => {
            let fin = |v: IBig| conv_ok(v, tv_i, |v| back_try(|| UBig::try_from(v.clone()), tv_u));
            push(outs, "from", guarded(|| fin(IBig::from(x.clone()))));
            push(outs, "into", guarded(|| fin(x.clone().into())));
        }
        "f32" => {
            let fin = |r| conv_res(r, tv_f32, |v| back_try(|| UBig::try_from(*v), tv_u));
            push(outs, "try_from(v)", guarded(|| fin(f32::try_from(x.clone()))));
            push(outs, "try_into(v)", guarded(|| fin(x.clone().try_into())));
        }
        "f64" => {
            let fin = |r| conv_res(r, tv_f64, |v| back_try(|| UBig::try_from(*v), tv_u));
            push(outs, "try_from(v)", guarded(|| fin(f64::try_from(x.clone()))));
            push(outs, "try_into(v)", guarded(|| fin(x.clone().try_into())));
        }
        "F" => dispatch_base!(dbase, B => {
            let fin = |v: FBig<HE, B>| conv_ok(v, tv_fb, |v| back_try(|| UBig::try_from(v.clone()), tv_u));
            push(outs, "from", guarded(|| fin(FBig::<HE, B>::from(x.clone()))));
            push(outs, "into", guarded(|| fin(x.clone().into())));
        }),
        "FR" => dispatch_base!(dbase, B => {
            push(outs, "from", guarded(|| conv_ok(Repr::<B>::from(x.clone()), tv_fr, |_| back_none())));
        }),
        "R" => {
            let fin = |v: RBig| conv_ok(v, tv_r, |v| back_try(|| UBig::try_from(v.clone()), tv_u));
            push(outs, "from", guarded(|| fin(RBig::from(x.clone()))));
            push(outs, "into", guarded(|| fin(x.clone().into())));
        }
        "RX" => {
            let fin = |v: Relaxed| conv_ok(v, tv_rx, |v| back_try(|| UBig::try_from(v.clone()), tv_u));
            push(outs, "from", guarded(|| fin(Relaxed::from(x.clone()))));
        }
        t if is_uprim(t) => with_uprim!(t, T => big_to_prim!(outs, x, T, |v: T| back_from(|| UBig::from(v), tv_u))),
        t if is_iprim(t) => with_iprim!(t, T => big_to_prim!(outs, x, T, |v: T| back_try(|| UBig::try_from(v), tv_u))),
        _ => {}
    }
}

fn conv_from_i(outs: &mut Outs, x: &IBig, dt: &str, dbase: u64) {
    match dt {
        "U" => {
            let fin = |r| conv_res(r, tv_u, |v: &UBig| back_from(|| IBig::from(v.clone()), tv_i));
            push(outs, "try_from(v)", guarded(|| fin(UBig::try_from(x.clone()))));
            push(outs, "try_into(v)", guarded(|| fin(x.clone().try_into())));
        }
        "f32" => {
            let fin = |r| conv_res(r, tv_f32, |v| back_try(|| IBig::try_from(*v), tv_i));
            push(outs, "try_from(v)", guarded(|| fin(f32::try_from(x.clone()))));
            push(outs, "try_into(v)", guarded(|| fin(x.clone().try_into())));
        }
        "f64" => {
            let fin = |r| conv_res(r, tv_f64, |v| back_try(|| IBig::try_from(*v), tv_i));
            push(outs, "try_from(v)", guarded(|| fin(f64::try_from(x.clone()))));
            push(outs, "try_into(v)", guarded(|| fin(x.clone().try_into())));
        }
        "F" => dispatch_base!(dbase, B => {
            let fin = |v: FBig<HE, B>| conv_ok(v, tv_fb, |v| back_try(|| IBig::try_from(v.clone()), tv_i));
            push(outs, "from", guarded(|| fin(FBig::<HE, B>::from(x.clone()))));
            push(outs, "into", guarded(|| fin(x.clone().into())));
        }),
        "FR" => dispatch_base!(dbase, B => {
            push(outs, "from", guarded(|| conv_ok(Repr::<B>::from(x.clone()), tv_fr, |_| back_none())));
        }),
        "R" => {
            let fin = |v: RBig| conv_ok(v, tv_r, |v| back_try(|| IBig::try_from(v.clone()), tv_i));
            push(outs, "from", guarded(|| fin(RBig::from(x.clone()))));
            push(outs, "into", guarded(|| fin(x.clone().into())));
        }
        "RX" => {
            let fin = |v: Relaxed| conv_ok(v, tv_rx, |v| back_try(|| IBig::try_from(v.clone()), tv_i));
            push(outs, "from", guarded(|| fin(Relaxed::from(x.clone()))));
        }
        t if is_uprim(t) => with_uprim!(t, T => big_to_prim!(outs, x, T, |v: T| back_from(|| IBig::from(v), tv_i))),
        t if is_iprim(t) => with_iprim!(t, T => big_to_prim!(outs, x, T, |v: T| back_from(|| IBig::from(v), tv_i))),
        _ => {}
    }
}

/// unsigned primitive source `p: T`
macro_rules! conv_from_uprim {
    ($outs:expr, $T:ty, $p:expr, $dt:expr, $dbase:expr) => {{
        let p: $T = $p;
        match $dt {
            "U" => {
                let fin = |v: UBig| conv_ok(v, tv_u, |v| back_try(|| <$T>::try_from(v.clone()), ptv::<$T>));
                push($outs, "from", guarded(|| fin(UBig::from(p))));
                push($outs, "into", guarded(|| fin(p.into())));
            }
            "I" => {
                let fin = |v: IBig| conv_ok(v, tv_i, |v| back_try(|| <$T>::try_from(v.clone()), ptv::<$T>));
                push($outs, "from", guarded(|| fin(IBig::from(p))));
                push($outs, "into", guarded(|| fin(p.into())));
            }
            "F" => dispatch_base!($dbase, B => {
                let fin = |v: FBig<HE, B>| conv_ok(v, tv_fb, |v| back_try(|| <$T>::try_from(v.clone()), ptv::<$T>));
                push($outs, "from", guarded(|| fin(FBig::<HE, B>::from(p))));
                push($outs, "into", guarded(|| fin(p.into())));
            }),
            "FR" => dispatch_base!($dbase, B => {
                let fin = |v: Repr<B>| conv_ok(v, tv_fr, |v| back_try(|| <$T>::try_from(v.clone()), ptv::<$T>));
                push($outs, "from", guarded(|| fin(Repr::<B>::from(p))));
            }),
            "R" => {
                let fin = |v: RBig| conv_ok(v, tv_r, |v| back_try(|| <$T>::try_from(v.clone()), ptv::<$T>));
                push($outs, "from", guarded(|| fin(RBig::from(p))));
                push($outs, "into", guarded(|| fin(p.into())));
            }
            "RX" => {
                let fin = |v: Relaxed| conv_ok(v, tv_rx, |v| back_try(|| <$T>::try_from(v.clone()), ptv::<$T>));
                push($outs, "from", guarded(|| fin(Relaxed::from(p))));
            }
            _ => {}
        }
    }};
}
macro_rules! conv_from_iprim {
    ($outs:expr, $T:ty, $p:expr, $dt:expr, $dbase:expr) => {{
        let p: $T = $p;
        match $dt {
            "U" => {
                let fin = |r| conv_res(r, tv_u, |v: &UBig| back_try(|| <$T>::try_from(v.clone()), ptv::<$T>));
                push($outs, "try_from(v)", guarded(|| fin(UBig::try_from(p))));
                push($outs, "try_into(v)", guarded(|| fin(p.try_into())));
            }
            "I" => {
                let fin = |v: IBig| conv_ok(v, tv_i, |v| back_try(|| <$T>::try_from(v.clone()), ptv::<$T>));
                push($outs, "from", guarded(|| fin(IBig::from(p))));
                push($outs, "into", guarded(|| fin(p.into())));
            }
            "F" => dispatch_base!($dbase, B => {
                let fin = |v: FBig<HE, B>| conv_ok(v, tv_fb, |v| back_try(|| <$T>::try_from(v.clone()), ptv::<$T>));
                push($outs, "from", guarded(|| fin(FBig::<HE, B>::from(p))));
                push($outs, "into", guarded(|| fin(p.into())));
            }),
            "R" => {
                let fin = |v: RBig| conv_ok(v, tv_r, |v| back_try(|| <$T>::try_from(v.clone()), ptv::<$T>));
                push($outs, "from", guarded(|| fin(RBig::from(p))));
                push($outs, "into", guarded(|| fin(p.into())));
            }
            "RX" => {
                let fin = |v: Relaxed| conv_ok(v, tv_rx, |v| back_try(|| <$T>::try_from(v.clone()), ptv::<$T>));
                push($outs, "from", guarded(|| fin(Relaxed::from(p))));
            }
            _ => {}
        }
    }};
}

/// primitive float source; $tv encodes the primitive float type
macro_rules! conv_from_pfloat {
    ($outs:expr, $T:ty, $p:expr, $dt:expr, $tv:expr) => {{
        let p: $T = $p;
        match $dt {
            "U" => {
                let fin = |r| conv_res(r, tv_u, |v: &UBig| back_try(|| <$T>::try_from(v.clone()), $tv));
                push($outs, "try_from(v)", guarded(|| fin(UBig::try_from(p))));
                push($outs, "try_into(v)", guarded(|| fin(p.try_into())));
            }
            "I" => {
                let fin = |r| conv_res(r, tv_i, |v: &IBig| back_try(|| <$T>::try_from(v.clone()), $tv));
                push($outs, "try_from(v)", guarded(|| fin(IBig::try_from(p))));
                push($outs, "try_into(v)", guarded(|| fin(p.try_into())));
            }
            "F" => {
                let fin = |r| conv_res(r, tv_fb, |v: &FBig<HE, 2>| back_try(|| <$T>::try_from(v.clone()), $tv));
                push($outs, "try_from(v)", guarded(|| fin(FBig::<HE, 2>::try_from(p))));
                push($outs, "try_into(v)", guarded(|| fin(p.try_into())));
            }
            "FR" => {
                let fin = |r| conv_res(r, tv_fr, |v: &Repr<2>| back_try(|| <$T>::try_from(v.clone()), $tv));
                push($outs, "try_from(v)", guarded(|| fin(Repr::<2>::try_from(p))));
            }
            "R" => {
                let fin = |r| conv_res(r, tv_r, |v: &RBig| back_try(|| <$T>::try_from(v.clone()), $tv));
                push($outs, "try_from(v)", guarded(|| fin(RBig::try_from(p))));
                push($outs, "try_into(v)", guarded(|| fin(p.try_into())));
            }
            "RX" => {
                let fin = |r| conv_res(r, tv_rx, |v: &Relaxed| back_try(|| <$T>::try_from(v.clone()), $tv));
                push($outs, "try_from(v)", guarded(|| fin(Relaxed::try_from(p))));
            }
            _ => {}
        }
    }};
}

fn conv_from_f<const B: Word>(outs: &mut Outs, x: &FBig<HE, B>, dt: &str) {
    match dt {
        "U" => {
            let fin = |r| conv_res(r, tv_u, |v: &UBig| back_from(|| FBig::<HE, B>::from(v.clone()), tv_fb));
            push(outs, "try_from(v)", guarded(|| fin(UBig::try_from(x.clone()))));
            push(outs, "try_into(v)", guarded(|| fin(x.clone().try_into())));
        }
        "I" => {
            let fin = |r| conv_res(r, tv_i, |v: &IBig| back_from(|| FBig::<HE, B>::from(v.clone()), tv_fb));
            push(outs, "try_from(v)", guarded(|| fin(IBig::try_from(x.clone()))));
            push(outs, "try_into(v)", guarded(|| fin(x.clone().try_into())));
        }
        "R" => {
            let fin = |r| conv_res(r, tv_r, |v: &RBig| back_from(|| FBig::<HE, B>::from(v.clone()), tv_fb));
            push(outs, "try_from(v)", guarded(|| fin(RBig::try_from(x.clone()))));
            push(outs, "try_into(v)", guarded(|| fin(x.clone().try_into())));
            push(outs, "try_from(repr)", guarded(|| fin(RBig::try_from(x.repr().clone()))));
        }
        "RX" => {
            let fin = |r| conv_res(r, tv_rx, |v: &Relaxed| back_from(|| FBig::<HE, B>::from(v.clone()), tv_fb));
            push(outs, "try_from(v)", guarded(|| fin(Relaxed::try_from(x.clone()))));
        }
        t if is_uprim(t) => with_uprim!(t, T => {
            val_to_prim!(outs, x, T, |v: T| back_from(|| FBig::<HE, B>::from(v), tv_fb));
            let fin = |r: Result<T, ConversionError>| conv_res(r, ptv::<T>, |v| back_from(|| FBig::<HE, B>::from(*v), tv_fb));
            push(outs, "try_from(repr)", guarded(|| fin(<T>::try_from(x.repr().clone()))));
        }),
        t if is_iprim(t) => with_iprim!(t, T => val_to_prim!(outs, x, T, |v: T| back_from(|| FBig::<HE, B>::from(v), tv_fb))),
        _ => {}
    }
}
/// base-2 floats only: to primitive floats
fn conv_from_f2_to_pfloat(outs: &mut Outs, x: &FBig<HE, 2>, dt: &str) {
    match dt {
        "f32" => {
            let fin = |r| conv_res(r, tv_f32, |v: &f32| back_try(|| FBig::<HE, 2>::try_from(*v), tv_fb));
            push(outs, "try_from(v)", guarded(|| fin(f32::try_from(x.clone()))));
            push(outs, "try_into(v)", guarded(|| fin(x.clone().try_into())));
            push(outs, "try_from(repr)", guarded(|| fin(f32::try_from(x.repr().clone()))));
        }
        "f64" => {
            let fin = |r| conv_res(r, tv_f64, |v: &f64| back_try(|| FBig::<HE, 2>::try_from(*v), tv_fb));
            push(outs, "try_from(v)", guarded(|| fin(f64::try_from(x.clone()))));
            push(outs, "try_into(v)", guarded(|| fin(x.clone().try_into())));
            push(outs, "try_from(repr)", guarded(|| fin(f64::try_from(x.repr().clone()))));
        }
        _ => {}
    }
}

/// rational source; $tvr encodes the source type again (for the way back)
macro_rules! conv_from_ratio {
    ($outs:expr, $RT:ty, $x:expr, $dt:expr, $dbase:expr, $tvr:expr) => {{
        let x: &$RT = $x;
        match $dt {
            "U" => {
                let fin = |r| conv_res(r, tv_u, |v: &UBig| back_from(|| <$RT>::from(v.clone()), $tvr));
                push($outs, "try_from(v)", guarded(|| fin(UBig::try_from(x.clone()))));
                push($outs, "try_into(v)", guarded(|| fin(x.clone().try_into())));
            }
            "I" => {
                let fin = |r| conv_res(r, tv_i, |v: &IBig| back_from(|| <$RT>::from(v.clone()), $tvr));
                push($outs, "try_from(v)", guarded(|| fin(IBig::try_from(x.clone()))));
                push($outs, "try_into(v)", guarded(|| fin(x.clone().try_into())));
            }
            "f32" => {
                let fin = |r| conv_res(r, tv_f32, |v: &f32| back_try(|| <$RT>::try_from(*v), $tvr));
                push($outs, "try_from(v)", guarded(|| fin(f32::try_from(x.clone()))));
                push($outs, "try_into(v)", guarded(|| fin(x.clone().try_into())));
            }
            "f64" => {
                let fin = |r| conv_res(r, tv_f64, |v: &f64| back_try(|| <$RT>::try_from(*v), $tvr));
                push($outs, "try_from(v)", guarded(|| fin(f64::try_from(x.clone()))));
                push($outs, "try_into(v)", guarded(|| fin(x.clone().try_into())));
            }
            "F" => dispatch_base!($dbase, B => {
                let fin = |v: FBig<HE, B>| conv_ok(v, tv_fb, |v| back_try(|| <$RT>::try_from(v.clone()), $tvr));
                push($outs, "from", guarded(|| fin(FBig::<HE, B>::from(x.clone()))));
                push($outs, "into", guarded(|| fin(x.clone().into())));
            }),
            t if is_uprim(t) => with_uprim!(t, T => val_to_prim!($outs, x, T, |v: T| back_from(|| <$RT>::from(v), $tvr))),
            t if is_iprim(t) => with_iprim!(t, T => val_to_prim!($outs, x, T, |v: T| back_from(|| <$RT>::from(v), $tvr))),
            _ => {}
        }
    }};
}

fn small_u(v: &Value) -> u128 {
    let m: Vec<u8> = v["m"].as_array().unwrap().iter().map(|b| b.as_u64().unwrap() as u8).collect();
    small_mag(&m).expect("primitive source wider than 128 bits")
}
fn small_i(v: &Value) -> i128 {
    let m: Vec<u8> = v["m"].as_array().unwrap().iter().map(|b| b.as_u64().unwrap() as u8).collect();
    small_signed(v["s"].as_i64().unwrap_or(0) == 1, &m).expect("primitive source outside i128")
}

fn op_conv(c: &Value) -> Value {
    let x = &c["x"];
    let dt = c["dt"].as_str().unwrap();
    let dbase = c["base"].as_u64().unwrap_or(2);
    let mut outs = Outs::new();
    let st = x["t"].as_str().unwrap();
    match st {
        "U" => conv_from_u(&mut outs, &dec_u(&x["i"]), dt, dbase),
        "I" => conv_from_i(&mut outs, &dec_i(&x["i"]), dt, dbase),
        "bool" => {
            let p = small_u(&x["i"]) != 0;
            match dt {
                "U" => push(&mut outs, "from", guarded(|| conv_ok(UBig::from(p), tv_u, |_| back_none()))),
                "I" => push(&mut outs, "from", guarded(|| conv_ok(IBig::from(p), tv_i, |_| back_none()))),
                _ => {}
            }
        }
        t if is_uprim(t) => {
            let v = small_u(&x["i"]);
            with_uprim!(t, T => conv_from_uprim!(&mut outs, T, v as T, dt, dbase))
        }
        t if is_iprim(t) => {
            let v = small_i(&x["i"]);
            with_iprim!(t, T => conv_from_iprim!(&mut outs, T, v as T, dt, dbase))
        }
        "f32" => conv_from_pfloat!(&mut outs, f32, f32_of(x), dt, tv_f32),
        "f64" => conv_from_pfloat!(&mut outs, f64, f64_of(x), dt, tv_f64),
        "F" => {
            let base = x["base"].as_u64().unwrap();
            if base == 2 && (dt == "f32" || dt == "f64") {
                conv_from_f2_to_pfloat(&mut outs, &fbig_of::<HE, 2>(x), dt)
            } else {
                dispatch_base!(base, B => conv_from_f::<B>(&mut outs, &fbig_of::<HE, B>(x), dt))
            }
        }
        "R" => conv_from_ratio!(&mut outs, RBig, &dec_r(x), dt, dbase, tv_r),
        "RX" => conv_from_ratio!(&mut outs, Relaxed, &dec_rx(x), dt, dbase, tv_rx),
        _ => {}
    }
    outs.grouped()
}

// ------------------------------------------------------------------ lossy conversions
fn sign_flag<T>(a: &Approximation<T, Sign>) -> &'static str {
    match a {
        Approximation::Exact(_) => "Exact",
        Approximation::Inexact(_, Sign::Positive) => "Positive",
        Approximation::Inexact(_, Sign::Negative) => "Negative",
    }
}
fn rnd_flag<T>(a: &Approximation<T, Rounding>) -> &'static str {
    match a {
        Approximation::Exact(_) => "Exact",
        Approximation::Inexact(_, e) => flag_name(Some(*e)),
    }
}
fn out_f32s(a: Approximation<f32, Sign>) -> Value {
    json!({"k": "ok", "flag": sign_flag(&a), "b": bits32(a.value())})
}
fn out_f64s(a: Approximation<f64, Sign>) -> Value {
    json!({"k": "ok", "flag": sign_flag(&a), "b": bits64(a.value())})
}
fn out_f32r(a: Approximation<f32, Rounding>) -> Value {
    json!({"k": "ok", "flag": rnd_flag(&a), "b": bits32(a.value())})
}
fn out_f64r(a: Approximation<f64, Rounding>) -> Value {
    json!({"k": "ok", "flag": rnd_flag(&a), "b": bits64(a.value())})
}

fn op_to_f(c: &Value) -> Value {
    let x = &c["x"];
    let f32t = c["ft"].as_str().unwrap() == "f32";
    let mut outs = Outs::new();
    macro_rules! both {
        ($v:expr) => {{
            let v = $v;
            if f32t {
                push(&mut outs, "to_f32", guarded(|| out_f32s(v.to_f32())));
            } else {
                push(&mut outs, "to_f64", guarded(|| out_f64s(v.to_f64())));
            }
        }};
    }
    match x["t"].as_str().unwrap() {
        "U" => both!(dec_u(&x["i"])),
        "I" => both!(dec_i(&x["i"])),
        "R" => both!(dec_r(x)),
        "RX" => both!(dec_rx(x)),
        "F" => {
            let base = x["base"].as_u64().unwrap();
            let m = c["mode"].as_str().unwrap_or("HalfEven");
            dispatch_base!(base, B => dispatch_mode!(m, R => {
                let v = fbig_of::<R, B>(x);
                // the same number held at unlimited precision (context precision 0): the conversion must not depend on it
                let unl = FBig::<R, B>::from_repr(v.repr().clone(), Context::new(0));
                if f32t {
                    push(&mut outs, "to_f32", guarded(|| out_f32r(v.to_f32())));
                    push(&mut outs, "unlimited.to_f32", guarded(|| out_f32r(unl.to_f32())));
                } else {
                    push(&mut outs, "to_f64", guarded(|| out_f64r(v.to_f64())));
                    push(&mut outs, "unlimited.to_f64", guarded(|| out_f64r(unl.to_f64())));
                }
            }))
        }
        "FR" => {
            let base = x["base"].as_u64().unwrap();
            dispatch_base!(base, B => {
                let v = dec_repr::<B>(&x["f"]);
                if f32t {
                    push(&mut outs, "repr.to_f32", guarded(|| out_f32r(v.to_f32())));
                } else {
                    push(&mut outs, "repr.to_f64", guarded(|| out_f64r(v.to_f64())));
                }
            })
        }
        _ => {}
    }
    outs.grouped()
}

fn op_to_f_fast(c: &Value) -> Value {
    let x = &c["x"];
    let f32t = c["ft"].as_str().unwrap() == "f32";
    let mut outs = Outs::new();
    macro_rules! both {
        ($v:expr) => {{
            let v = $v;
            if f32t {
                push(&mut outs, "to_f32_fast", guarded(|| json!({"k": "ok", "b": bits32(v.to_f32_fast())})));
            } else {
                push(&mut outs, "to_f64_fast", guarded(|| json!({"k": "ok", "b": bits64(v.to_f64_fast())})));
            }
        }};
    }
    match x["t"].as_str().unwrap() {
        "R" => both!(dec_r(x)),
        "RX" => both!(dec_rx(x)),
        _ => {}
    }
    outs.grouped()
}

fn op_to_float(c: &Value) -> Value {
    let x = &c["x"];
    let base = c["base"].as_u64().unwrap();
    let m = c["mode"].as_str().unwrap();
    let p = c["p"].as_u64().unwrap() as usize;
    let mut outs = Outs::new();
    dispatch_base!(base, B => dispatch_mode!(m, R => {
        let enc = |a: Approximation<FBig<R, B>, Rounding>| json!({"k": "ok", "flag": rnd_flag(&a), "v": enc_f(a.value_ref())});
        match x["t"].as_str().unwrap() {
            "R" => { let v = dec_r(x); push(&mut outs, "to_float", guarded(|| enc(v.to_float::<R, B>(p)))); }
            "RX" => { let v = dec_rx(x); push(&mut outs, "to_float", guarded(|| enc(v.to_float::<R, B>(p)))); }
            _ => {}
        }
    }));
    outs.grouped()
}

fn op_to_int(c: &Value) -> Value {
    let x = &c["x"];
    let rule = c["rule"].as_str().unwrap();
    let mut outs = Outs::new();
    match x["t"].as_str().unwrap() {
        "F" => {
            let base = x["base"].as_u64().unwrap();
            let m = c["mode"].as_str().unwrap();
            dispatch_base!(base, B => dispatch_mode!(m, R => {
                let v = fbig_of::<R, B>(x);
                push(&mut outs, "to_int", guarded(|| { let a = v.to_int(); json!({"k": "ok", "flag": rnd_flag(&a), "v": enc_i(a.value_ref())}) }));
            }))
        }
        "FR" => {
            let base = x["base"].as_u64().unwrap();
            dispatch_base!(base, B => {
                let v = dec_repr::<B>(&x["f"]);
                push(&mut outs, "repr.to_int", guarded(|| { let a = v.to_int(); json!({"k": "ok", "flag": rnd_flag(&a), "v": enc_i(a.value_ref())}) }));
            })
        }
        t @ ("R" | "RX") => {
            macro_rules! ratio_rules {
                ($v:expr, $tv:expr) => {{
                    let v = $v;
                    match rule {
                        "trunc-fract" => push(&mut outs, "to_int", guarded(|| match v.to_int() {
                            Approximation::Exact(i) => json!({"k": "ok", "flag": "Exact", "v": enc_i(&i)}),
                            Approximation::Inexact(i, fr) => json!({"k": "ok", "flag": "Inexact", "v": enc_i(&i), "fract": $tv(&fr)}),
                        })),
                        "trunc" => push(&mut outs, "trunc", guarded(|| json!({"k": "ok", "flag": "", "v": enc_i(&v.trunc())}))),
                        "floor" => push(&mut outs, "floor", guarded(|| json!({"k": "ok", "flag": "", "v": enc_i(&v.floor())}))),
                        "ceil" => push(&mut outs, "ceil", guarded(|| json!({"k": "ok", "flag": "", "v": enc_i(&v.ceil())}))),
                        "half-away" => push(&mut outs, "round", guarded(|| json!({"k": "ok", "flag": "", "v": enc_i(&v.round())}))),
                        _ => {}
                    }
                }};
            }
            if t == "R" {
                ratio_rules!(dec_r(x), tv_r)
            } else {
                ratio_rules!(dec_rx(x), tv_rx)
            }
        }
        _ => {}
    }
    outs.grouped()
}

fn op_encode(c: &Value) -> Value {
    let mut outs = Outs::new();
    let m = small_i(&c["m"]);
    let e = c["e"].as_i64().unwrap() as i16;
    if c["ft"].as_str().unwrap() == "f32" {
        push(&mut outs, "f32::encode", guarded(|| out_f32s(f32::encode(m as i32, e))));
    } else {
        push(&mut outs, "f64::encode", guarded(|| out_f64s(f64::encode(m as i64, e))));
    }
    outs.grouped()
}
fn op_decode(c: &Value) -> Value {
    let mut outs = Outs::new();
    let x = &c["x"];
    let cat = |c: core::num::FpCategory| match c {
        core::num::FpCategory::Nan => "Nan",
        core::num::FpCategory::Infinite => "Infinite",
        _ => "Other",
    };
    if x["t"] == "f32" {
        let f = f32_of(x);
        push(&mut outs, "f32::decode", guarded(|| match f.decode() {
            Ok((m, e)) => json!({"k": "ok", "m": enc_sm(m < 0, m.unsigned_abs() as u128), "e": e}),
            Err(c) => json!({"k": "err", "e": cat(c)}),
        }));
    } else {
        let f = f64_of(x);
        push(&mut outs, "f64::decode", guarded(|| match f.decode() {
            Ok((m, e)) => json!({"k": "ok", "m": enc_sm(m < 0, m.unsigned_abs() as u128), "e": e}),
            Err(c) => json!({"k": "err", "e": cat(c)}),
        }));
    }
    outs.grouped()
}

fn run_case(log: &mut Log, c: &Value, src: &str) {
    let op = c["op"].as_str().unwrap();
    let outs = match op {
        "conv" => op_conv(c),
        "to_f" => op_to_f(c),
        "to_f_fast" => op_to_f_fast(c),
        "to_float" => op_to_float(c),
        "to_int" => op_to_int(c),
        "encode" => op_encode(c),
        "decode" => op_decode(c),
        _ => panic!("unknown op {}", op),
    };
    if outs.as_array().map(|a| a.is_empty()).unwrap_or(true) {
        // no such conversion in the library: nothing to observe (keeps generators simple)
        return;
    }
    let mut ev = c.clone();
    let m = ev.as_object_mut().unwrap();
    m.remove("outs");
    m.remove("seq");
    m.insert("prop".into(), json!("C06"));
    m.insert("src".into(), json!(src));
    m.insert("outs".into(), outs);
    log.ev(ev);
}

// ------------------------------------------------------------------ seeded random sources
const PRIMS: &[&str] = &["u8", "u16", "u32", "u64", "u128", "usize", "i8", "i16", "i32", "i64", "i128", "isize"];
fn prim_bits(t: &str) -> (bool, u32) {
    match t {
        "u8" => (false, 8), "u16" => (false, 16), "u32" => (false, 32), "u64" | "usize" => (false, 64), "u128" => (false, 128),
        "i8" => (true, 8), "i16" => (true, 16), "i32" => (true, 32), "i64" | "isize" => (true, 64), _ => (true, 128),
    }
}
fn rand_int(rng: &mut Rng, max_words: usize) -> IBig {
    let m = match rng.below(10) {
        0..=3 => {
            let n = rng.below(17) as usize;
            ubig_from_bytes(&pattern_bytes(rng, n, 0))
        }
        4..=6 => {
            let n = rng.below(25) as usize;
            let pat = rng.next();
            ubig_from_bytes(&pattern_bytes(rng, n, pat))
        }
        _ => random_ubig(rng, max_words),
    };
    ibig_from_parts(rng.coin(), &words_to_bytes(m.as_words()))
}
fn rand_prim_tv(rng: &mut Rng) -> Value {
    let t = *rng.pick(PRIMS);
    let (signed, bits) = prim_bits(t);
    // edge-biased magnitude within the type
    let full: u128 = if bits == 128 { u128::MAX } else { (1u128 << bits) - 1 };
    let raw = (rng.next() as u128) << 64 | rng.next() as u128;
    let mag = match rng.below(6) {
        0 => 0,
        1 => full,
        2 => full >> 1,
        3 => (full >> 1) + 1,
        4 => raw & full & (full >> rng.below(bits as u64) as u32),
        _ => raw & full,
    };
    if signed {
        let half = (full >> 1) + 1; // 2^(bits-1)
        let neg = rng.coin();
        let mag = if neg { mag.min(half) } else { mag.min(half - 1) };
        json!({"t": t, "i": enc_sm(neg, mag)})
    } else {
        json!({"t": t, "i": enc_sm(false, mag)})
    }
}
fn rand_f32(rng: &mut Rng) -> f32 {
    match rng.below(10) {
        0..=4 => f32::from_bits(rng.next() as u32),
        5 | 6 => (rng.range(-70000, 70000) as f32) * [1.0f32, 0.5, 0.25, 256.0, 65536.0][rng.below(5) as usize],
        7 => *rng.pick(&[0.0f32, -0.0, f32::INFINITY, f32::NEG_INFINITY, f32::NAN, f32::MAX, f32::MIN, f32::MIN_POSITIVE, 1.0, -1.0, 1.5, 16777216.0, 16777218.0]),
        8 => f32::from_bits((rng.next() as u32) & 0x807f_ffff), // subnormals
        _ => f32::from_bits(((rng.next() as u32) & 0x807f_ffff) | ((127 + rng.below(140) as u32).min(254) << 23)), // >= 1
    }
}
fn rand_f64(rng: &mut Rng) -> f64 {
    match rng.below(10) {
        0..=4 => f64::from_bits(rng.next()),
        5 | 6 => (rng.range(-1 << 54, 1 << 54) as f64) * [1.0f64, 0.5, 0.25, 1024.0, 18446744073709551616.0][rng.below(5) as usize],
        7 => *rng.pick(&[0.0f64, -0.0, f64::INFINITY, f64::NEG_INFINITY, f64::NAN, f64::MAX, f64::MIN, f64::MIN_POSITIVE, 1.0, -1.0, 1.5, 9007199254740992.0, 9007199254740994.0]),
        8 => f64::from_bits(rng.next() & 0x800f_ffff_ffff_ffff),
        _ => f64::from_bits((rng.next() & 0x800f_ffff_ffff_ffff) | ((1023 + rng.below(1100)).min(2046) << 52)),
    }
}
fn rand_fbig_tv(rng: &mut Rng, kind: &str, int_valued: bool) -> Value {
    let base = *rng.pick(BASES);
    let nbytes = if rng.below(4) == 0 { rng.below(25) } else { rng.below(9) } as usize;
    let pat = if rng.coin() { 0 } else { rng.next() };
    let sig = ibig_from_parts(rng.coin(), &pattern_bytes(rng, nbytes, pat));
    let exp = if int_valued {
        rng.range(0, 12)
    } else {
        match rng.below(8) {
            0 => rng.range(-420, 420),
            1 | 2 => rng.range(-45, 45),
            _ => rng.range(-12, 12),
        }
    };
    dispatch_base!(base, B => {
        let r = Repr::<B>::new(sig, exp as isize);
        let mut f = enc_repr(&r);
        f["prec"] = json!(0);
        json!({"t": kind, "base": B, "f": f})
    })
}
fn rand_ratio_tv(rng: &mut Rng, kind: &str) -> Value {
    let nb = |rng: &mut Rng| (if rng.below(3) == 0 { rng.below(33) } else { rng.below(10) }) as usize;
    let n = nb(rng);
    let mut num = ubig_from_bytes(&pattern_bytes(rng, n, 0));
    let mut den = match rng.below(5) {
        0 => UBig::ONE,
        1 => UBig::ONE << rng.below(200) as usize,
        _ => {
            let n = 1 + nb(rng);
            ubig_from_bytes(&pattern_bytes(rng, n, 0))
        }
    };
    // spread over the exponent range of the primitive floats now and then
    match rng.below(12) {
        0 => num <<= rng.below(1100) as usize,
        1 => den <<= rng.below(1200) as usize,
        _ => {}
    }
    let num = IBig::from_parts(if rng.coin() { Sign::Negative } else { Sign::Positive }, num);
    if kind == "R" {
        tv_r(&RBig::from_parts(num, den))
    } else {
        tv_rx(&Relaxed::from_parts(num, den))
    }
}

fn rand_ratio_any(rng: &mut Rng) -> Value {
    let kind = if rng.below(4) == 0 { "RX" } else { "R" };
    rand_ratio_tv(rng, kind)
}
fn rand_prec(rng: &mut Rng) -> u64 {
    let hi = if rng.coin() { 4 } else { 40 };
    1 + rng.below(hi)
}

fn random_case(rng: &mut Rng, max_words: usize) -> Value {
    let modes = MODES;
    match rng.below(100) {
        // ---- From / TryFrom
        0..=44 => {
            let kind = rng.below(9);
            let (x, dts): (Value, Vec<&str>) = match kind {
                0 => (tv_u(&rand_int(rng, max_words).unsigned_abs()), [&["I", "f32", "f64", "F", "FR", "R", "RX"][..], PRIMS].concat()),
                1 => (tv_i(&rand_int(rng, max_words)), [&["U", "f32", "f64", "F", "FR", "R", "RX"][..], PRIMS].concat()),
                2 => (rand_prim_tv(rng), vec!["U", "I", "F", "FR", "R", "RX"]),
                3 => (tv_f32(&rand_f32(rng)), vec!["U", "I", "F", "FR", "R", "RX"]),
                4 => (tv_f64(&rand_f64(rng)), vec!["U", "I", "F", "FR", "R", "RX"]),
                5 | 6 => {
                    let iv = rng.coin();
                    let x = rand_fbig_tv(rng, "F", iv);
                    let mut d = [&["U", "I", "R", "RX"][..], PRIMS].concat();
                    if x["base"] == 2 {
                        d.extend_from_slice(&["f32", "f64", "f32", "f64"]);
                    }
                    (x, d)
                }
                7 => (rand_ratio_tv(rng, "R"), [&["U", "I", "f32", "f64", "F"][..], PRIMS].concat()),
                _ => (rand_ratio_tv(rng, "RX"), [&["U", "I", "f32", "f64", "F"][..], PRIMS].concat()),
            };
            let dt = *rng.pick(&dts);
            json!({"op": "conv", "x": x, "dt": dt, "base": *rng.pick(BASES)})
        }
        // ---- to_f32 / to_f64
        45..=74 => {
            let ft = if rng.coin() { "f32" } else { "f64" };
            let x = match rng.below(8) {
                0 | 1 => {
                    let mut v = rand_int(rng, max_words);
                    if rng.below(4) == 0 {
                        // wide integers whose bits below the target precision are mostly zero
                        let keep = [24usize, 25, 26, 53, 54, 55, 56][rng.below(7) as usize];
                        let top = ubig_from_bytes(&pattern_bytes(rng, 8, 0)) >> (64 - keep);
                        let low = if rng.coin() { UBig::ZERO } else { UBig::ONE };
                        v = IBig::from_parts(v.sign(), (top << (rng.below(900) as usize + 2)) + low);
                    }
                    if rng.coin() { tv_i(&v) } else { tv_u(&v.unsigned_abs()) }
                }
                2 | 3 => rand_ratio_any(rng),
                4 | 5 | 6 => rand_fbig_tv(rng, "F", false),
                _ => rand_fbig_tv(rng, "FR", false),
            };
            json!({"op": "to_f", "x": x, "ft": ft, "mode": *rng.pick(modes)})
        }
        75..=79 => json!({"op": "to_f_fast", "x": rand_ratio_any(rng), "ft": if rng.coin() { "f32" } else { "f64" }}),
        // ---- RBig::to_float
        80..=87 => json!({"op": "to_float", "x": rand_ratio_any(rng),
            "base": *rng.pick(BASES), "mode": *rng.pick(modes), "p": rand_prec(rng)}),
        // ---- to_int family
        88..=93 => {
            if rng.coin() {
                let rule = *rng.pick(&["trunc-fract", "trunc", "floor", "ceil", "half-away"]);
                json!({"op": "to_int", "x": rand_ratio_any(rng), "rule": rule, "mode": "Zero"})
            } else {
                let kind = if rng.below(4) == 0 { "FR" } else { "F" };
                let mut x = rand_fbig_tv(rng, kind, false);
                let e = x["f"]["exp"].as_i64().unwrap();
                if e.abs() > 60 {
                    x["f"]["exp"] = json!(e % 60);
                }
                // a precision consistent with a value below one (see the note on F04 in checks/C06.py)
                let e = x["f"]["exp"].as_i64().unwrap();
                if e < 0 {
                    x["f"]["prec"] = json!(-e);
                }
                json!({"op": "to_int", "x": x, "rule": if kind == "F" { "mode" } else { "zero" }, "mode": *rng.pick(modes)})
            }
        }
        // ---- FloatEncoding
        94..=97 => {
            let f32t = rng.coin();
            let bits = if f32t { 31 } else { 63 };
            let mut m = (rng.next() >> (64 - bits)) >> rng.below(bits);
            if rng.below(3) == 0 {
                m &= !0u64 << rng.below(bits); // trailing zeros: exact and tie patterns
            }
            let e = if f32t { rng.range(-190, 140) } else { rng.range(-1150, 1040) };
            json!({"op": "encode", "ft": if f32t { "f32" } else { "f64" }, "m": enc_sm(rng.coin(), m as u128), "e": e})
        }
        _ => json!({"op": "decode", "x": if rng.coin() { tv_f32(&rand_f32(rng)) } else { tv_f64(&rand_f64(rng)) }}),
    }
}

fn main() {
    let args = &start();
    let mut log = Log::create(&args.out);
    let mut rng = Rng::new(args.seed);
    if let Some(path) = &args.cases {
        for c in read_cases(path) {
            let src = c["src"].as_str().unwrap_or("gen").to_string();
            run_case(&mut log, &c, if src == "rnd" || src == "wit" { &src } else { "gen" });
        }
    }
    let mut made = 0;
    while made < args.n {
        let c = random_case(&mut rng, args.max_words);
        let before = log.n;
        run_case(&mut log, &c, "rnd");
        if log.n > before {
            made += 1;
        }
    }
    let n = log.finish();
    eprintln!("c06: {} events", n);
}
