//! C01 (and the C15 form inventory for it): + - * sqr cubic pow on UBig / IBig in every call form.
use dashu_verif_harness::common::*;
use dashu_verif_harness::forms::*;
use dashu_verif_harness::{forms_assign, forms_big_prim, forms_binop, forms_prim_big};
use dashu_int::{IBig, UBig};
use serde_json::{json, Value};

fn eu(x: &UBig) -> Value {
    enc_u(x)
}
fn ei(x: &IBig) -> Value {
    enc_i(x)
}

macro_rules! with_unsigned_prims {
    ($v:expr, $body:ident, $($args:tt)*) => {{
        let v: u128 = $v;
        if v <= u8::MAX as u128 { $body!(u8, v as u8, $($args)*); }
        if v <= u16::MAX as u128 { $body!(u16, v as u16, $($args)*); }
        if v <= u32::MAX as u128 { $body!(u32, v as u32, $($args)*); }
        if v <= u64::MAX as u128 { $body!(u64, v as u64, $($args)*); }
        if v <= usize::MAX as u128 { $body!(usize, v as usize, $($args)*); }
        $body!(u128, v, $($args)*);
    }};
}
macro_rules! with_signed_prims {
    ($v:expr, $body:ident, $($args:tt)*) => {{
        let v: i128 = $v;
        if v >= i8::MIN as i128 && v <= i8::MAX as i128 { $body!(i8, v as i8, $($args)*); }
        if v >= i16::MIN as i128 && v <= i16::MAX as i128 { $body!(i16, v as i16, $($args)*); }
        if v >= i32::MIN as i128 && v <= i32::MAX as i128 { $body!(i32, v as i32, $($args)*); }
        if v >= i64::MIN as i128 && v <= i64::MAX as i128 { $body!(i64, v as i64, $($args)*); }
        if v >= isize::MIN as i128 && v <= isize::MAX as i128 { $body!(isize, v as isize, $($args)*); }
        $body!(i128, v, $($args)*);
    }};
}
macro_rules! bp {
    ($t:ty, $p:expr, $outs:expr, $a:expr, $op:tt, $opa:tt, $enc:expr) => {
        forms_big_prim!($outs, concat!(stringify!($t), ":"), $a, $p, $op, $opa, $enc)
    };
}
macro_rules! pb {
    ($t:ty, $p:expr, $outs:expr, $b:expr, $op:tt, $enc:expr) => {
        forms_prim_big!($outs, concat!(stringify!($t), "~:"), $p, $b, $op, $enc)
    };
}

// the iterator forms of + and *: Sum / Product over owned and over borrowed items (integer/src/iter.rs)
macro_rules! fold_forms {
    ($outs:expr, none, $x:expr, $y:expr, $t:ty, $enc:expr) => {};
    ($outs:expr, $fold:ident, $x:expr, $y:expr, $t:ty, $enc:expr) => {{
        $outs.push(concat!(stringify!($fold), ":v"), guarded(|| $enc(&vec![$x.clone(), $y.clone()].into_iter().$fold::<$t>())));
        $outs.push(concat!(stringify!($fold), ":r"), guarded(|| $enc(&[$x.clone(), $y.clone()].iter().$fold::<$t>())));
    }};
}
macro_rules! ring_op {
    ($name:ident, $op:tt, $opa:tt, $fold:ident) => {
        /// all forms of one ring operator for operands (sa, a) (sb, b); lt/rt in {"U","I"}
        pub fn $name(lt: &str, rt: &str, a: &IBig, b: &IBig) -> Value {
            let mut outs = Outs::new();
            let (sa, ma) = (a.as_sign_words().0 == dashu_int::Sign::Negative, words_to_bytes(a.as_sign_words().1));
            let (sb, mb) = (b.as_sign_words().0 == dashu_int::Sign::Negative, words_to_bytes(b.as_sign_words().1));
            match (lt, rt) {
                ("U", "U") => {
                    let (x, y) = (ubig_from_bytes(&ma), ubig_from_bytes(&mb));
                    forms_binop!(outs, "", x, y, $op, eu);
                    forms_assign!(outs, "", x, y, $opa, eu);
                    fold_forms!(outs, $fold, x, y, UBig, eu);
                    if let Some(v) = small_mag(&mb) {
                        with_unsigned_prims!(v, bp, outs, x, $op, $opa, eu);
                    }
                    if let Some(v) = small_mag(&ma) {
                        with_unsigned_prims!(v, pb, outs, y, $op, eu);
                    }
                }
                ("I", "I") => {
                    let (x, y) = (a.clone(), b.clone());
                    forms_binop!(outs, "", x, y, $op, ei);
                    forms_assign!(outs, "", x, y, $opa, ei);
                    fold_forms!(outs, $fold, x, y, IBig, ei);
                    if !sb {
                        if let Some(v) = small_mag(&mb) {
                            with_unsigned_prims!(v, bp, outs, x, $op, $opa, ei);
                        }
                    }
                    if let Some(v) = small_signed(sb, &mb) {
                        with_signed_prims!(v, bp, outs, x, $op, $opa, ei);
                    }
                    if !sa {
                        if let Some(v) = small_mag(&ma) {
                            with_unsigned_prims!(v, pb, outs, y, $op, ei);
                        }
                    }
                    if let Some(v) = small_signed(sa, &ma) {
                        with_signed_prims!(v, pb, outs, y, $op, ei);
                    }
                }
                ("U", "I") => {
                    let (x, y) = (ubig_from_bytes(&ma), b.clone());
                    forms_binop!(outs, "", x, y, $op, ei);
                }
                ("I", "U") => {
                    let (x, y) = (a.clone(), ubig_from_bytes(&mb));
                    forms_binop!(outs, "", x, y, $op, ei);
                    forms_assign!(outs, "", x, y, $opa, ei);
                }
                _ => panic!("bad type pair"),
            }
            outs.grouped()
        }
    };
}
ring_op!(forms_add, +, +=, sum);
ring_op!(forms_sub, -, -=, none);
ring_op!(forms_mul, *, *=, product);

pub fn run_case(log: &mut Log, op: &str, lt: &str, rt: &str, a: &IBig, b: &IBig, n: usize, src: &str) {
    // an unsigned operand slot always receives the magnitude
    let a_eff = if lt == "U" { IBig::from(ubig_from_bytes(&words_to_bytes(a.as_sign_words().1))) } else { a.clone() };
    let b_eff = if rt == "U" { IBig::from(ubig_from_bytes(&words_to_bytes(b.as_sign_words().1))) } else { b.clone() };
    let res = if lt == "U" && rt == "U" { "U" } else { "I" };
    let mut ev = json!({"prop": "C01", "op": op, "lt": lt, "rt": rt, "res": res, "src": src,
        "a": enc_i(&a_eff), "b": enc_i(&b_eff), "n": n});
    let outs = match op {
        "add" => forms_add(lt, rt, &a_eff, &b_eff),
        "sub" => forms_sub(lt, rt, &a_eff, &b_eff),
        "mul" => forms_mul(lt, rt, &a_eff, &b_eff),
        "sqr" | "cubic" | "pow" => {
            let mut outs = Outs::new();
            if lt == "U" {
                let x = ubig_from_bytes(&words_to_bytes(a_eff.as_sign_words().1));
                match op {
                    "sqr" => {
                        outs.push("m", guarded(|| eu(&x.sqr())));
                        outs.push("mulrr", guarded(|| eu(&(&x * &x))));
                        outs.push("mulvv", guarded(|| eu(&(x.clone() * x.clone()))));
                        outs.push("pow2", guarded(|| eu(&x.pow(2))));
                    }
                    "cubic" => {
                        outs.push("m", guarded(|| eu(&x.cubic())));
                        outs.push("pow3", guarded(|| eu(&x.pow(3))));
                    }
                    _ => outs.push("m", guarded(|| eu(&x.pow(n)))),
                }
            } else {
                let x = a_eff.clone();
                match op {
                    // IBig::sqr returns UBig
                    "sqr" => {
                        outs.push("m", guarded(|| eu(&x.sqr())));
                        outs.push("mulrr", guarded(|| ei(&(&x * &x))));
                        outs.push("mulvv", guarded(|| ei(&(x.clone() * x.clone()))));
                        outs.push("pow2", guarded(|| ei(&x.pow(2))));
                    }
                    "cubic" => {
                        outs.push("m", guarded(|| ei(&x.cubic())));
                        outs.push("pow3", guarded(|| ei(&x.pow(3))));
                    }
                    _ => outs.push("m", guarded(|| ei(&x.pow(n)))),
                }
            }
            ev["res"] = json!(lt);
            outs.grouped()
        }
        _ => panic!("unknown op {}", op),
    };
    ev["outs"] = outs;
    log.ev(ev);
}

fn type_pair(rng: &mut Rng) -> (&'static str, &'static str) {
    *rng.pick(&[("U", "U"), ("I", "I"), ("I", "I"), ("U", "I"), ("I", "U")])
}

fn main() {
    let args = &start();
    let mut log = Log::create(&args.out);
    let mut rng = Rng::new(args.seed);
    // 1. cases generated by TLC (spec -> implementation)
    if let Some(path) = &args.cases {
        for c in read_cases(path) {
            let a = dec_i(&c["a"]);
            let b = dec_i(&c["b"]);
            run_case(&mut log, c["op"].as_str().unwrap(), c["lt"].as_str().unwrap(), c["rt"].as_str().unwrap(),
                &a, &b, c["n"].as_u64().unwrap_or(0) as usize, "gen");
        }
    }
    // 2. seeded random operands (implementation -> spec)
    for i in 0..args.n {
        let (lt, rt) = type_pair(&mut rng);
        let k = rng.below(100);
        let a = random_ibig(&mut rng, args.max_words);
        let b = match rng.below(10) {
            0 => a.clone(),                    // square shortcut, cancellation
            1 => guarded_or(a.clone(), || -a.clone()),
            2 => random_ibig(&mut rng, 2),     // unbalanced
            _ => random_ibig(&mut rng, args.max_words),
        };
        if k < 30 {
            run_case(&mut log, "add", lt, rt, &a, &b, 0, "rnd");
        } else if k < 60 {
            run_case(&mut log, "sub", lt, rt, &a, &b, 0, "rnd");
        } else if k < 88 {
            run_case(&mut log, "mul", lt, rt, &a, &b, 0, "rnd");
        } else if k < 92 {
            run_case(&mut log, "sqr", lt, lt, &a, &a, 0, "rnd");
        } else if k < 95 {
            let s = random_ibig(&mut rng, (args.max_words / 3).max(1));
            run_case(&mut log, "cubic", lt, lt, &s, &s, 0, "rnd");
        } else {
            // keep the power affordable for the monitor: bits(a) * n bounded
            let base = random_ibig(&mut rng, 3);
            let bits = (words_to_bytes(base.as_sign_words().1).len() * 8).max(1); // independent of the word size
            let n = rng.below((4096 / bits) as u64 + 2) as usize;
            run_case(&mut log, "pow", lt, lt, &base, &base, n, "rnd");
        }
        let _ = i;
    }
    // 3. --probe-search T: products at the Toom-3 length whose thirds are drawn from a small alphabet of block patterns (zero,
    // one, all ones, top bits, dense): the carries that Toom-3 parks between its partial sums then run through a whole block
    // now and then - a branch dense operands never take.  The library's rare-branch counters (cfg(dashu_verif),
    // integer/src/verif_probe.rs) say when: only those products are recorded (and validated by the monitor like any other),
    // the search stops after T products or when every Toom-3 counter has fired `want` times.
    #[cfg(dashu_probe)]
    if let Some(i) = args.extra.iter().position(|a| a == "--probe-search") {
        let t: u64 = args.extra[i + 1].parse().unwrap();
        let want: usize = args.extra.get(i + 2).and_then(|v| v.parse().ok()).unwrap_or(3);
        let names = dashu_int::verif_probe::NAMES;
        let mut kept = [0usize; 8];
        let word = |rng: &mut Rng, kind: u64| -> u64 {
            match kind % 8 {
                0 | 1 => 0,
                2 | 3 => u64::MAX,
                4 => 1,
                5 => 1 << 63,
                6 => u64::MAX - 1,
                _ => rng.next(),
            }
        };
        let mut tried = 0u64;
        while tried < t && (0..4).any(|k| kept[k] < want) {
            tried += 1;
            // the shorter factor is above mul::THRESHOLD_KARATSUBA (192 words); the longer one has the same length, or about
            // twice / three times as many words (the kernel then ACCUMULATES into partial sums that are already there)
            let n = 193 + rng.below(40) as usize;
            let n3 = (n + 2) / 3;
            // an operand is a sequence of runs of one word value; run lengths are short, about a third, or anything
            let mut build = |rng: &mut Rng, len: usize| -> UBig {
                let mut w: Vec<u64> = Vec::new();
                while w.len() < len {
                    let rl = match rng.below(4) {
                        0 => 1 + rng.below(8) as usize,
                        1 => n3 - 2 + rng.below(5) as usize,
                        2 => 1 + rng.below(2 * n3 as u64) as usize,
                        _ => 10 + rng.below(30) as usize,
                    };
                    let k = rng.next();
                    let dense = k % 8 == 7;
                    let v = word(rng, k);
                    for _ in 0..rl.min(len - w.len()) {
                        w.push(if dense { rng.next() } else { v });
                    }
                }
                if *w.last().unwrap() == 0 {
                    *w.last_mut().unwrap() = 1;
                }
                ubig_from_bytes(&w.iter().flat_map(|x| x.to_le_bytes()).collect::<Vec<u8>>())
            };
            let la = match rng.below(3) { 0 => n, 1 => 2 * n + rng.below(8) as usize, _ => n + rng.below(2 * n as u64) as usize };
            let (mut a, mut b) = (build(&mut rng, la), build(&mut rng, n));
            if la > n && rng.coin() {
                // saturated partial sums: the first block product (B^n - 1)^2 = B^2n - 2 B^n + 1 leaves all-ones words where the
                // second block product is accumulated, so the additions of the second Toom-3 call overflow their windows
                let ones = (UBig::ONE << (64 * n)) - UBig::ONE;
                a = ((a >> (64 * n)) << (64 * n)) + &ones;
                if rng.coin() {
                    b = ones;
                } else {
                    b = (UBig::ONE << (64 * n)) - (UBig::ONE << (64 * rng.below(n as u64 / 2) as usize)) - UBig::ONE;
                }
            }
            let before = dashu_int::verif_probe::hits();
            let _ = &a * &b;
            let after = dashu_int::verif_probe::hits();
            let fired: Vec<usize> = (0..4).filter(|k| after[*k] > before[*k]).collect();
            if fired.iter().any(|k| kept[*k] < want) {
                for k in &fired {
                    kept[*k] += 1;
                }
                let (ai, bi) = (IBig::from(a), IBig::from(b));
                run_case(&mut log, "mul", "U", "U", &ai, &bi, 0, "probe");
                let (na, nb) = (guarded_or(ai.clone(), || -ai.clone()), bi);
                run_case(&mut log, "mul", "I", "I", &na, &nb, 0, "probe");
            }
        }
        let h = dashu_int::verif_probe::hits();
        // the summary goes to a side file (it is not an operation): products tried, products kept per probe, raw counters
        let summary = json!({"tried": tried,
            "kept": names.iter().zip(kept.iter()).map(|(n, v)| json!({"name": n, "n": v})).collect::<Vec<_>>(),
            "hits": names.iter().zip(h.iter()).map(|(n, v)| json!({"name": n, "n": v})).collect::<Vec<_>>()});
        std::fs::write(format!("{}.probe", args.out), summary.to_string()).expect("harness: cannot write the probe summary");
    }
    let n = log.finish();
    eprintln!("c01: {} events", n);
}
