//! C10: rounding to integers / to fewer digits.
//!   FBig::{trunc, floor, ceil, round, fract, split_at_point, to_int, with_precision}, Repr::to_int,
//!   RBig / Relaxed::{trunc, floor, ceil, round, fract, split_at_point},
//!   the public primitives Round::round_fract / Round::round_ratio for all six modes.
//! No oracle here: operands are built from the case, dashu is called, what came back is written out.
//! The only comparison is equality with the algorithm-layer prediction of generated cases (`drift`).
use dashu_base::Approximation;
use dashu_float::round::{Round, Rounding};
use dashu_float::{Context, FBig, Repr};
use dashu_int::{IBig, UBig, Word};
use dashu_ratio::{RBig, Relaxed};
use dashu_verif_harness::common::*;
use dashu_verif_harness::fwire::*;
use dashu_verif_harness::{dispatch_base, dispatch_mode};
use serde_json::{json, Value};

fn dec_int(v: &Value) -> IBig {
    if let Some(i) = v.as_i64() {
        IBig::from(i)
    } else {
        dec_i(v)
    }
}
fn dec_repr2<const B: Word>(v: &Value) -> Repr<B> {
    Repr::<B>::new(dec_int(&v["sig"]), v["exp"].as_i64().unwrap_or(0) as isize)
}
fn flag_of<T>(r: &Approximation<T, Rounding>) -> &'static str {
    match r {
        Approximation::Exact(_) => "Exact",
        Approximation::Inexact(_, e) => flag_name(Some(*e)),
    }
}
fn passthrough(ev: &mut Value, c: &Value) {
    for k in ["branch", "class", "pred", "known", "id", "kind"] {
        if let Some(v) = c.get(k) {
            ev[k] = v.clone();
        }
    }
}

// ------------------------------------------------------------------ FBig operations
fn fbig_case<R: Round, const B: Word>(log: &mut Log, c: &Value, src: &str) {
    let op = c["op"].as_str().unwrap();
    let repr: Repr<B> = dec_repr2::<B>(&c["a"]);
    // precision 0 = unlimited (a finite float like any other); otherwise the operand must fit its precision
    let prec = match c["a"]["prec"].as_u64() {
        Some(0) => 0,
        p => (p.unwrap_or(1) as usize).max(repr.digits()).max(1),
    };
    let a = FBig::<R, B>::from_repr(repr, Context::<R>::new(prec));
    let q = c["q"].as_u64().unwrap_or(0) as usize;
    let out = outcome(match op {
        "trunc" => guarded(|| enc_f(&a.trunc())),
        "floor" => guarded(|| enc_f(&a.floor())),
        "ceil" => guarded(|| enc_f(&a.ceil())),
        "round" => guarded(|| enc_f(&a.round())),
        "fract" => guarded(|| enc_f(&a.fract())),
        "split" => guarded(|| {
            let (t, f) = a.clone().split_at_point();
            json!({"t": enc_f(&t), "f": enc_f(&f)})
        }),
        "to_int" => guarded(|| {
            let r = a.to_int();
            json!({"flag": flag_of(&r), "i": enc_i(&r.value())})
        }),
        "repr_to_int" => guarded(|| {
            let r = a.repr().to_int();
            json!({"flag": flag_of(&r), "i": enc_i(&r.value())})
        }),
        "with_precision" => guarded(|| {
            let r = a.clone().with_precision(q);
            json!({"flag": flag_of(&r), "v": enc_f(&r.value())})
        }),
        other => panic!("unknown op {}", other),
    });
    let mut ev = json!({"prop": "C10", "op": op, "base": B as u64, "mode": c["mode"], "a": enc_f(&a), "q": q,
        "src": src, "out": out});
    passthrough(&mut ev, c);
    // equality with the algorithm-layer prediction: DRIFT only
    if c.get("pred").map(|p| p.is_object()).unwrap_or(false) && ev["out"]["k"] == "ok" {
        let p = &c["pred"];
        let v = &ev["out"]["v"];
        let fl = |x: &Value, s: &Value, e: &Value| dec_int(&x["sig"]) == dec_int(s) && x["exp"].as_i64() == e.as_i64();
        let same = match op {
            "trunc" | "floor" | "ceil" | "round" => {
                // the model predicts the integer value; the code returns it as a float
                let r: Repr<B> = dec_repr2::<B>(v);
                r.exponent() >= 0 && Repr::<B>::new(dec_int(&p["i"]), 0) == r
            }
            "fract" => fl(v, &p["fs"], &p["fe"]),
            "split" => Repr::<B>::new(dec_int(&p["i"]), 0) == dec_repr2::<B>(&v["t"]) && fl(&v["f"], &p["fs"], &p["fe"]),
            "to_int" | "repr_to_int" => dec_int(&v["i"]) == dec_int(&p["i"]) && v["flag"] == p["flag"],
            _ => fl(&v["v"], &p["fs"], &p["fe"]) && v["flag"] == p["flag"],
        };
        ev["drift"] = json!(!same);
    }
    log.ev(ev);
}

// ------------------------------------------------------------------ rationals
fn ratio_case(log: &mut Log, c: &Value, src: &str) {
    let op = c["op"].as_str().unwrap();
    let ty = c["ty"].as_str().unwrap_or("RBig");
    let num = dec_int(&c["x"]["num"]);
    let den: UBig = dec_int(&c["x"]["den"]).try_into().expect("positive denominator");
    macro_rules! run {
        ($x:expr, $encr:expr) => {{
            let x = $x;
            let out = outcome(match op {
                "r_trunc" => guarded(|| enc_i(&x.trunc())),
                "r_floor" => guarded(|| enc_i(&x.floor())),
                "r_ceil" => guarded(|| enc_i(&x.ceil())),
                "r_round" => guarded(|| enc_i(&x.round())),
                "r_fract" => guarded(|| $encr(&x.fract())),
                "r_split" => guarded(|| {
                    let (t, f) = x.clone().split_at_point();
                    json!({"t": enc_i(&t), "f": $encr(&f)})
                }),
                other => panic!("unknown op {}", other),
            });
            (out, $encr(&x))
        }};
    }
    let (out, xv) = if ty == "Relaxed" {
        run!(Relaxed::from_parts(num, den), enc_rx)
    } else {
        run!(RBig::from_parts(num, den), enc_r)
    };
    let mut ev = json!({"prop": "C10", "op": op, "ty": ty, "x": xv, "src": src, "out": out});
    passthrough(&mut ev, c);
    log.ev(ev);
}

// ------------------------------------------------------------------ the two primitives, all six modes
fn prim_case(log: &mut Log, c: &Value, src: &str) {
    let op = c["op"].as_str().unwrap();
    let i = dec_int(&c["i"]);
    let mut res = serde_json::Map::new();
    let mut ev;
    if op == "round_fract" {
        let base = c["base"].as_u64().unwrap();
        let f = dec_int(&c["f"]);
        let prec = c["prec"].as_u64().unwrap() as usize;
        for m in MODES {
            let r = guarded(|| dispatch_mode!(*m, R => dispatch_base!(base, B => R::round_fract::<B>(&i, f.clone(), prec))));
            res.insert(m.to_string(), json!(match r {
                Ok(x) => flag_name(Some(x)),
                Err(_) => "PANIC",
            }));
        }
        ev = json!({"prop": "C10", "op": op, "base": base, "i": enc_i(&i), "f": enc_i(&f), "prec": prec, "src": src});
    } else {
        let num = dec_int(&c["num"]);
        let den = dec_int(&c["den"]);
        for m in MODES {
            let r = guarded(|| dispatch_mode!(*m, R => R::round_ratio(&i, num.clone(), &den)));
            res.insert(m.to_string(), json!(match r {
                Ok(x) => flag_name(Some(x)),
                Err(_) => "PANIC",
            }));
        }
        ev = json!({"prop": "C10", "op": op, "i": enc_i(&i), "num": enc_i(&num), "den": enc_i(&den), "src": src});
    }
    if c.get("pred").map(|p| p.is_object()).unwrap_or(false) {
        ev["drift"] = json!(MODES.iter().any(|m| c["pred"][*m] != res[*m]));
    }
    ev["res"] = Value::Object(res);
    passthrough(&mut ev, c);
    log.ev(ev);
}

fn dispatch(log: &mut Log, c: &Value, src: &str) {
    let op = c["op"].as_str().unwrap();
    if op.starts_with("r_") {
        ratio_case(log, c, src);
    } else if op == "round_fract" || op == "round_ratio" {
        prim_case(log, c, src);
    } else {
        let mode = c["mode"].as_str().unwrap().to_string();
        let base = c["base"].as_u64().unwrap();
        dispatch_mode!(mode.as_str(), R => dispatch_base!(base, B => fbig_case::<R, B>(log, c, src)));
    }
}

// ------------------------------------------------------------------ random cases
fn rand_mag(rng: &mut Rng, base: u64, digits: usize, pat: u64) -> UBig {
    let bb = UBig::from(base);
    let mut acc = UBig::ZERO;
    for i in 0..digits {
        let (first, last) = (i == 0, i + 1 == digits);
        let mut d = match pat % 5 {
            0 | 1 => rng.below(base),
            2 => base - 1,
            3 => if first || last { 1 } else { 0 },
            _ => if first { base / 2 } else if last { 1 + rng.below(base - 1) } else if rng.below(8) == 0 { rng.below(base) } else { 0 },
        };
        if (first || last) && d == 0 {
            d = 1 + rng.below(base - 1);
        }
        acc = acc * &bb + UBig::from(d);
    }
    acc
}
fn pow_base(base: u64, k: usize) -> UBig {
    UBig::from(base).pow(k)
}
fn sign_it(rng: &mut Rng, m: UBig) -> IBig {
    if rng.coin() {
        -IBig::from(m)
    } else {
        IBig::from(m)
    }
}
const FOPS: &[&str] = &["trunc", "floor", "ceil", "round", "round", "fract", "split", "to_int", "to_int", "repr_to_int",
    "with_precision", "with_precision"];

fn random_fbig(rng: &mut Rng, max_prec: usize, far: i64) -> Value {
    let base = *rng.pick(&[2u64, 3, 10, 16, 36, 10, 2]);
    let mode = *rng.pick(MODES);
    let op = *rng.pick(FOPS);
    let prec = match rng.below(10) {
        0..=2 => 1,
        3..=5 => 2 + rng.below(5) as usize,
        6..=8 => 1 + rng.below(24.min(max_prec as u64)) as usize,
        _ => 1 + rng.below(max_prec as u64) as usize,
    };
    let d = if rng.below(3) == 0 { 1 + rng.below(prec as u64) as usize } else { prec };
    let pat = rng.next();
    let mut mag = rand_mag(rng, base, d, pat);
    let di = d as i64;
    let mut kind = "plain";
    // where the radix point falls relative to the digits
    let mut exp = match rng.below(12) {
        0 => rng.range(0, 40),                       // an integer
        1 | 2 | 3 => -rng.range(1, di.max(1)),       // point inside the digits
        4 => -di,                                    // 0.ddd
        5 => -di - 1,                                // 0.0ddd : |x| < 1/B
        6 => -di - 2,                                // boundary of the round() shortcut
        7 => -di - 3,
        8 => -di - rng.range(0, 6),
        9 => -(prec as i64) - rng.range(0, 4),       // more leading zeros than the precision
        10 => -di - rng.range(4, far),               // far below
        _ => -rng.range(1, 2 * di + 4),
    };
    match rng.below(8) {
        0 if base % 2 == 0 => {
            // exactly k + 1/2
            let k = if d > 1 { rand_mag(rng, base, d - 1, 0) } else { UBig::ZERO };
            mag = k * UBig::from(base) + UBig::from(base / 2);
            exp = -1;
            kind = "half";
        }
        1 if d >= 2 => {
            // 0.4999.. and 0.5000..1 : just below / above one half (an odd base has no exact half:
            // (B^n - 1) / 2 is the largest fraction below it, one more is the smallest above)
            let n = d;
            let half = pow_base(base, n) / UBig::from(2u8);
            mag = if base % 2 == 0 {
                if rng.coin() { half - UBig::ONE } else { half + UBig::ONE }
            } else if rng.coin() {
                half
            } else {
                half + UBig::ONE
            };
            exp = -(n as i64);
            kind = "near-half";
        }
        2 => {
            // all-max digits just below a power of the base: 0.0099 style
            mag = rand_mag(rng, base, d, 2);
            kind = "all-max";
        }
        _ => {}
    }
    let sig = sign_it(rng, mag);
    let q = match rng.below(8) {
        0 => 0,
        1 => 1,
        2 => d.saturating_sub(1),
        3 => d,
        4 => d + 1,
        5 => prec,
        6 => prec + 1 + rng.below(5) as usize,
        _ => 1 + rng.below(prec as u64 + 2) as usize,
    };
    // one value in twelve carries unlimited precision
    let prec = if rng.below(12) == 0 { 0 } else { prec };
    json!({"op": op, "base": base, "mode": mode, "kind": kind, "q": q,
        "a": {"sig": enc_i(&sig), "exp": exp, "inf": 0, "prec": prec}})
}

/// a float whose fractional part alone is wider than a machine word of either size (33..190 digits behind the point, in
/// base 2, 10 or 16), with 1..70 digits in front of it: the by-reference splits cut it inside a word
fn random_fbig_wide(rng: &mut Rng, j: u64) -> Value {
    let base = *rng.pick(&[2u64, 2, 10, 16]);
    let mode = MODES[(j % MODES.len() as u64) as usize];
    let op = FOPS[(j / 3 % FOPS.len() as u64) as usize];
    let span = if rng.coin() { 40 } else { 158 };
    let frac = 33 + rng.below(span) as usize;
    let int = 1 + rng.below(70) as usize;
    let d = frac + int;
    let pat = if rng.below(3) == 0 { 2 } else { rng.next() };
    let mag = rand_mag(rng, base, d, pat);
    let sig = sign_it(rng, mag);
    json!({"op": op, "base": base, "mode": mode, "kind": "wide-fraction", "q": 1 + rng.below(d as u64) as usize,
        "a": {"sig": enc_i(&sig), "exp": -(frac as i64), "inf": 0, "prec": if j % 5 == 0 { 0 } else { d }}})
}

fn random_ratio(rng: &mut Rng, max_words: usize) -> Value {
    let op = *rng.pick(&["r_trunc", "r_floor", "r_ceil", "r_round", "r_round", "r_fract", "r_split"]);
    let ty = if rng.coin() { "RBig" } else { "Relaxed" };
    let mut den = random_ubig(rng, max_words);
    if den == UBig::ZERO {
        den = UBig::ONE;
    }
    let mut num = random_ibig(rng, max_words);
    let mut kind = "plain";
    match rng.below(8) {
        0 => {
            // exact half: odd / 2
            den = UBig::from(2u8);
            num = num * IBig::from(2) + IBig::ONE;
            kind = "half";
        }
        1 => {
            den = UBig::ONE;
            kind = "integer";
        }
        2 => {
            // |x| < 1
            num = num % IBig::from(den.clone());
            kind = "below-one";
        }
        3 => {
            // just off a half: (k * den + den/2 +- 1) / den
            let h = IBig::from(&den / UBig::from(2u8));
            let k = IBig::from(rng.range(-5, 5));
            num = k * IBig::from(den.clone()) + h + IBig::from(rng.range(-1, 1));
            kind = "near-half";
        }
        _ => {}
    }
    json!({"op": op, "ty": ty, "kind": kind, "x": {"num": enc_i(&num), "den": enc_i(&IBig::from(den))}})
}

fn random_prim(rng: &mut Rng, max_digits: usize) -> Value {
    let i = match rng.below(5) {
        0 => IBig::ZERO,
        1 => IBig::from(rng.range(-3, 3)),
        _ => random_ibig(rng, 3),
    };
    if rng.coin() {
        let base = *rng.pick(&[2u64, 3, 10, 16, 36]);
        let prec = 1 + rng.below(max_digits as u64) as usize;
        let full = pow_base(base, prec);
        let mut kind = "plain";
        let fm = match rng.below(6) {
            0 if base % 2 == 0 => {
                kind = "tie";
                &full / UBig::from(2u8)
            }
            1 => {
                kind = "near-tie";
                let h = &full / UBig::from(2u8);
                if rng.coin() { h + UBig::ONE } else if h > UBig::ONE { h - UBig::ONE } else { h }
            }
            2 => {
                kind = "max";
                &full - UBig::ONE
            }
            3 => {
                kind = "min";
                UBig::ONE
            }
            _ => {
                let d = 1 + rng.below(prec as u64) as usize;
                let pat = rng.next();
                rand_mag(rng, base, d, pat)
            }
        };
        let fm = if fm >= full { &full - UBig::ONE } else { fm };
        let f = sign_it(rng, fm);
        json!({"op": "round_fract", "base": base, "kind": kind, "i": enc_i(&i), "f": enc_i(&f), "prec": prec})
    } else {
        let mut den = random_ubig(rng, 3);
        if den <= UBig::ONE {
            den = UBig::from(2u8 + rng.below(9) as u8);
        }
        let mut kind = "plain";
        let nm = match rng.below(5) {
            0 => {
                kind = "tie";
                if (&den % UBig::from(2u8)) != UBig::ZERO {
                    den = den + UBig::ONE;
                }
                &den / UBig::from(2u8)
            }
            1 => {
                kind = "near-tie";
                &den / UBig::from(2u8) + UBig::from(rng.below(2))
            }
            2 => {
                kind = "max";
                &den - UBig::ONE
            }
            _ => random_ubig(rng, 3) % &den,
        };
        let nm = if nm >= den { &den - UBig::ONE } else { nm };
        let num = sign_it(rng, nm);
        let dens = sign_it(rng, den);
        json!({"op": "round_ratio", "kind": kind, "i": enc_i(&i), "num": enc_i(&num), "den": enc_i(&dens)})
    }
}

/// round_fract at tens of thousands of digits: the f32 pre-filter of the half test works with products
/// b_ub * precision whose f32 rounding error exceeds the 0.001 slack (bases 2 and 16: the power is a shift)
fn huge_prims(log: &mut Log, digits: &[usize]) {
    for &n in digits {
        for base in [2u64, 16] {
            let bits = if base == 2 { n } else { 4 * n };
            let half: UBig = UBig::ONE << (bits - 1);
            for (kind, f) in [("tie", half.clone()), ("near-tie", &half + UBig::ONE), ("near-tie", &half - UBig::ONE)] {
                for s in [1i8, -1] {
                    for iv in [0i64, 1, -2] {
                        let c = json!({"op": "round_fract", "base": base, "kind": kind, "huge": true,
                            "i": enc_i(&IBig::from(iv)), "f": enc_i(&(IBig::from(f.clone()) * IBig::from(s))), "prec": n});
                        prim_case(log, &c, "huge");
                    }
                }
            }
        }
    }
}

/// odd base: the fractions directly below and above one half, (B^p - 1) / 2 and (B^p + 1) / 2, for every
/// digit count at which the exact comparison (not the log2 pre-filter) decides; always part of a seeded run
fn odd_base_halves(log: &mut Log) {
    let base = 3u64;
    for p in 2usize..=14 {
        let below: UBig = (UBig::from(base).pow(p) - UBig::ONE) / UBig::from(2u8);
        let above = &below + UBig::ONE;
        for (kind, f) in [("odd-below-half", below.clone()), ("odd-above-half", above)] {
            for s in [1i8, -1] {
                for iv in [0i64, 1, -1, 2] {
                    let c = json!({"op": "round_fract", "base": base, "kind": kind,
                        "i": enc_i(&IBig::from(iv)), "f": enc_i(&(IBig::from(f.clone()) * IBig::from(s))), "prec": p});
                    prim_case(log, &c, "odd");
                }
            }
        }
    }
}

fn main() {
    let args = &start();
    let mut log = Log::create(&args.out);
    let mut rng = Rng::new(args.seed);
    let (mut max_prec, mut far, mut huge) = (60usize, 300i64, Vec::<usize>::new());
    let mut i = 0;
    while i < args.extra.len() {
        match args.extra[i].as_str() {
            "--max-prec" => {
                max_prec = args.extra[i + 1].parse().unwrap();
                i += 1
            }
            "--far" => {
                far = args.extra[i + 1].parse().unwrap();
                i += 1
            }
            "--huge" => {
                huge = args.extra[i + 1].split(',').map(|s| s.parse().unwrap()).collect();
                i += 1
            }
            _ => {}
        }
        i += 1;
    }
    if let Some(path) = &args.cases {
        for c in read_cases(path) {
            let src = c["src"].as_str().unwrap_or("gen").to_string();
            dispatch(&mut log, &c, &src);
        }
    }
    for _ in 0..args.n {
        let c = match rng.below(10) {
            0..=5 => random_fbig(&mut rng, max_prec, far),
            6 | 7 => random_ratio(&mut rng, 6),
            _ => random_prim(&mut rng, 80),
        };
        dispatch(&mut log, &c, "rnd");
    }
    if let Some(i) = args.extra.iter().position(|a| a == "--wide-frac") {
        let k: u64 = args.extra[i + 1].parse().unwrap();
        for j in 0..k {
            let c = random_fbig_wide(&mut rng, j);
            dispatch(&mut log, &c, "wide");
        }
    }
    huge_prims(&mut log, &huge);
    if args.n > 0 {
        odd_base_halves(&mut log);
    }
    let n = log.finish();
    eprintln!("c10: {} events", n);
}
