use dashu_verif_harness::*;
fn main() {
    let argv: Vec<String> = std::env::args().collect();
    if argv.len() < 2 {
        eprintln!("usage: drive <property> [--out f] [--cases f] [--seed n] [--n n] [--max-words n]");
        std::process::exit(2);
    }
    common::silence_panics();
    let args = common::parse_args(&argv[2..]);
    match argv[1].as_str() {
        "c01" => c01::main(&args),
        other => {
            eprintln!("unknown property {}", other);
            std::process::exit(2);
        }
    }
}
