//! C19: serialization round trips (serde_json = human readable, postcard = binary) and decoding of
//! malformed / non-canonical streams.  The same seeded values are produced in every build
//! configuration; the check compares the byte streams across configurations.
use dashu_float::{DBig, FBig};
use dashu_int::{IBig, UBig};
use dashu_ratio::{RBig, Relaxed};
use dashu_verif_harness::common::*;
use dashu_verif_harness::fwire::*;
use serde::{de::DeserializeOwned, Serialize};
use serde_json::{json, Value};

type F2 = FBig;

fn bytes_val(b: &[u8]) -> Value {
    Value::Array(b.iter().map(|x| json!(*x)).collect())
}
fn roundtrip<T: Serialize + DeserializeOwned>(x: &T, enc: &dyn Fn(&T) -> Value) -> (Value, Value, Value, Value) {
    let js = guarded(|| serde_json::to_vec(x).unwrap());
    let bin = guarded(|| postcard::to_allocvec(x).unwrap());
    let back_js = match &js {
        Ok(b) => match guarded(|| serde_json::from_slice::<T>(b)) {
            Ok(Ok(v)) => json!({"k": "ok", "v": enc(&v)}),
            Ok(Err(_)) => json!({"k": "err"}),
            Err(m) => json!({"k": "panic", "msg": m}),
        },
        Err(m) => json!({"k": "panic", "msg": m}),
    };
    let back_bin = match &bin {
        Ok(b) => match guarded(|| postcard::from_bytes::<T>(b)) {
            Ok(Ok(v)) => json!({"k": "ok", "v": enc(&v)}),
            Ok(Err(_)) => json!({"k": "err"}),
            Err(m) => json!({"k": "panic", "msg": m}),
        },
        Err(m) => json!({"k": "panic", "msg": m}),
    };
    (
        js.map(|b| bytes_val(&b)).unwrap_or(json!([])),
        bin.map(|b| bytes_val(&b)).unwrap_or(json!([])),
        back_js,
        back_bin,
    )
}
fn ev_roundtrip<T: Serialize + DeserializeOwned>(log: &mut Log, ty: &str, x: &T, enc: &dyn Fn(&T) -> Value) {
    let (js, bin, bj, bb) = roundtrip(x, enc);
    log.ev(json!({"prop": "C19", "op": "serde", "ty": ty, "val": enc(x), "json": js, "bin": bin, "back_json": bj, "back_bin": bb}));
}
/// decode an arbitrary binary stream as T
fn ev_decode<T: DeserializeOwned>(log: &mut Log, ty: &str, stream: &[u8], note: &str, enc: &dyn Fn(&T) -> Value) {
    let out = match guarded(|| postcard::from_bytes::<T>(stream)) {
        Ok(Ok(v)) => json!({"k": "ok", "v": enc(&v)}),
        Ok(Err(_)) => json!({"k": "err"}),
        Err(m) => json!({"k": "panic", "msg": m}),
    };
    log.ev(json!({"prop": "C19", "op": "decode", "ty": ty, "note": note, "bin": bytes_val(stream), "out": out}));
}
/// decode an arbitrary JSON text as T
fn ev_decode_json<T: DeserializeOwned>(log: &mut Log, ty: &str, text: &str, enc: &dyn Fn(&T) -> Value) {
    let out = match guarded(|| serde_json::from_str::<T>(text)) {
        Ok(Ok(v)) => json!({"k": "ok", "v": enc(&v)}),
        Ok(Err(_)) => json!({"k": "err"}),
        Err(m) => json!({"k": "panic", "msg": m}),
    };
    log.ev(json!({"prop": "C19", "op": "decode_json", "ty": ty, "json": bytes_val(text.as_bytes()), "out": out}));
}

/// to/from little- and big-endian bytes
fn ev_bytes(log: &mut Log, a: &IBig, u: &UBig) {
    let r = guarded(|| {
        let (le, be) = (u.to_le_bytes(), u.to_be_bytes());
        json!({"le": bytes_val(&le), "be": bytes_val(&be), "back_le": enc_u(&UBig::from_le_bytes(&le)), "back_be": enc_u(&UBig::from_be_bytes(&be))})
    });
    log.ev(json!({"prop": "C19", "op": "bytes", "ty": "U", "val": enc_u(u), "res": outcome(r)}));
    let r = guarded(|| {
        let (le, be) = (a.to_le_bytes(), a.to_be_bytes());
        json!({"le": bytes_val(&le), "be": bytes_val(&be), "back_le": enc_i(&IBig::from_le_bytes(&le)), "back_be": enc_i(&IBig::from_be_bytes(&be))})
    });
    log.ev(json!({"prop": "C19", "op": "bytes", "ty": "I", "val": enc_i(a), "res": outcome(r)}));
}
/// decoding of an arbitrary byte string (given in little-endian order; the big-endian call gets it reversed)
fn ev_frombytes(log: &mut Log, b: &[u8]) {
    let rev: Vec<u8> = b.iter().rev().cloned().collect();
    let r = guarded(|| json!({"u_le": enc_u(&UBig::from_le_bytes(b)), "u_be": enc_u(&UBig::from_be_bytes(&rev)),
        "i_le": enc_i(&IBig::from_le_bytes(b)), "i_be": enc_i(&IBig::from_be_bytes(&rev))}));
    log.ev(json!({"prop": "C19", "op": "frombytes", "bin": bytes_val(b), "res": outcome(r)}));
}

fn enc_u_repr(x: &UBig) -> Value {
    json!({"int": enc_u(x), "repr": repr_u(x)})
}
fn enc_i_repr(x: &IBig) -> Value {
    json!({"int": enc_i(x), "repr": repr_i(x)})
}
fn enc_f2(x: &F2) -> Value {
    enc_f(x)
}
fn enc_d(x: &DBig) -> Value {
    enc_f(x)
}

fn mutate(rng: &mut Rng, b: &[u8]) -> Vec<u8> {
    let mut v = b.to_vec();
    match rng.below(5) {
        0 if !v.is_empty() => {
            let i = rng.below(v.len() as u64) as usize;
            v[i] ^= 1 << rng.below(8);
        }
        1 if !v.is_empty() => {
            v.truncate(rng.below(v.len() as u64) as usize);
        }
        2 => v.push(rng.next() as u8),
        3 if !v.is_empty() => {
            let i = rng.below(v.len() as u64) as usize;
            v.insert(i, 0);
        }
        _ => {
            if !v.is_empty() {
                let i = rng.below(v.len() as u64) as usize;
                v[i] = 0;
            }
        }
    }
    v
}

fn main() {
    let args = &start();
    let mut log = Log::create(&args.out);
    let mut rng = Rng::new(args.seed);
    for i in 0..args.n {
        let a = random_ibig(&mut rng, args.max_words);
        let u = ubig_from_bytes(&words_to_bytes(a.as_sign_words().1));
        let mut d = random_ubig(&mut rng, args.max_words.min(4));
        if d == UBig::ZERO {
            d = UBig::ONE;
        }
        let exp = rng.range(-300, 300) as isize;
        let prec = (words_to_bytes(a.as_sign_words().1).len() * 8 + rng.below(40) as usize).max(1); // independent of the word size
        match i % 6 {
            0 => ev_roundtrip(&mut log, "U", &u, &enc_u_repr),
            1 => ev_roundtrip(&mut log, "I", &a, &enc_i_repr),
            2 => {
                let f: F2 = FBig::from_parts(a.clone(), exp).with_precision(prec).value();
                ev_roundtrip(&mut log, "F2", &f, &enc_f2)
            }
            3 => {
                let f: DBig = DBig::from_parts(a.clone(), exp % 60).with_precision(prec).value();
                ev_roundtrip(&mut log, "F10", &f, &enc_d)
            }
            4 => ev_roundtrip(&mut log, "R", &RBig::from_parts(a.clone(), d.clone()), &enc_r),
            _ => ev_roundtrip(&mut log, "X", &Relaxed::from_parts(a.clone(), d.clone()), &enc_rx),
        }
        if i % 2 == 0 {
            ev_bytes(&mut log, &a, &u);
            // byte strings with every interesting top byte (sign bit alone, all ones, zero padding)
            let mut b = words_to_bytes(a.as_sign_words().1);
            let top = *rng.pick(&[0x80u8, 0xff, 0x00, 0x7f, 0x01, 0x81]);
            match rng.below(3) {
                0 => b.push(top),
                1 => {
                    if let Some(l) = b.last_mut() {
                        *l = top
                    }
                }
                _ => {
                    b.push(top);
                    b.push(if top >= 0x80 { 0xff } else { 0 });
                }
            }
            ev_frombytes(&mut log, &b);
        }
        // malformed / non-canonical binary streams
        if i % 3 == 0 {
            let valid_u = postcard::to_allocvec(&u).unwrap();
            let valid_i = postcard::to_allocvec(&a).unwrap();
            let m = mutate(&mut rng, &valid_u);
            ev_decode::<UBig>(&mut log, "U", &m, "mutated", &enc_u_repr);
            let m = mutate(&mut rng, &valid_i);
            ev_decode::<IBig>(&mut log, "I", &m, "mutated", &enc_i_repr);
            // high zero bytes in the payload (non-canonical length)
            let mut payload = words_to_bytes(u.as_words());
            payload.extend_from_slice(&[0u8; 9]);
            let s = postcard::to_allocvec(&serde_bytes_like(&payload)).unwrap();
            ev_decode::<UBig>(&mut log, "U", &s, "zero-padded", &enc_u_repr);
            ev_decode::<IBig>(&mut log, "I", &s, "zero-padded", &enc_i_repr);
            // rationals: zero denominator, unreduced pair, negative zero
            let zero_den = postcard::to_allocvec(&(a.clone(), UBig::ZERO)).unwrap();
            ev_decode::<RBig>(&mut log, "R", &zero_den, "zero-denominator", &enc_r);
            ev_decode::<Relaxed>(&mut log, "X", &zero_den, "zero-denominator", &enc_rx);
            let k = UBig::from(6u8);
            let unreduced = postcard::to_allocvec(&(&a * IBig::from(6), &d * &k)).unwrap();
            ev_decode::<RBig>(&mut log, "R", &unreduced, "unreduced", &enc_r);
            ev_decode::<Relaxed>(&mut log, "X", &unreduced, "unreduced", &enc_rx);
            let valid_r = postcard::to_allocvec(&RBig::from_parts(a.clone(), d.clone())).unwrap();
            let m = mutate(&mut rng, &valid_r);
            ev_decode::<RBig>(&mut log, "R", &m, "mutated", &enc_r);
            // floats: significand divisible by the base, mutated streams
            let f: F2 = FBig::from_parts(a.clone(), exp);
            let valid_f = postcard::to_allocvec(&f).unwrap();
            let m = mutate(&mut rng, &valid_f);
            ev_decode::<F2>(&mut log, "F2", &m, "mutated", &enc_f2);
            let nonnorm = postcard::to_allocvec(&(&a * IBig::from(8), exp, prec)).unwrap();
            ev_decode::<F2>(&mut log, "F2", &nonnorm, "unnormalized", &enc_f2);
            let nonnorm10 = postcard::to_allocvec(&(&a * IBig::from(1000), exp % 60, prec)).unwrap();
            ev_decode::<DBig>(&mut log, "F10", &nonnorm10, "unnormalized", &enc_d);
        }
        if i % 5 == 0 {
            for t in ["\"\"", "\"_\"", "\"-\"", "\"12a\"", "\"0x\"", "\"1/0\"", "\"-0\"", "\"0x1F\"", "12", "\"1__2\"", "\" 1\"", "\"1/-2\"", "\"6/4\""] {
                ev_decode_json::<UBig>(&mut log, "U", t, &enc_u_repr);
                ev_decode_json::<IBig>(&mut log, "I", t, &enc_i_repr);
                ev_decode_json::<RBig>(&mut log, "R", t, &enc_r);
                ev_decode_json::<Relaxed>(&mut log, "X", t, &enc_rx);
            }
        }
    }
    let n = log.finish();
    eprintln!("c19: {} events", n);
}

/// a byte string that serializes like `serialize_bytes` (length prefix + bytes)
fn serde_bytes_like(b: &[u8]) -> ByteBuf {
    ByteBuf(b.to_vec())
}
struct ByteBuf(Vec<u8>);
impl Serialize for ByteBuf {
    fn serialize<S: serde::Serializer>(&self, s: S) -> Result<S::Ok, S::Error> {
        s.serialize_bytes(&self.0)
    }
}
