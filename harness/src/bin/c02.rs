//! C02 (and its C15 form inventory): every division form on UBig / IBig / mixed / primitives / ConstDivisor.
//!
//! Outcome of one form: {"k":"ok","conv":"T"|"E"|"M","hq":0|1,"hr":0|1,"q":int,"r":int,"mult":bool}
//! conv T = truncating (`/`, `%`, div_rem), E = Euclidean, M = is_multiple_of.
use dashu_base::{DivEuclid, DivRem, DivRemAssign, DivRemEuclid, RemEuclid};
use dashu_int::fast_div::ConstDivisor;
use dashu_int::{IBig, UBig};
use dashu_verif_harness::common::*;
use dashu_verif_harness::forms::*;
use serde_json::{json, Value};

fn zero() -> Value {
    json!({"s": 0, "m": []})
}
fn oq(conv: &str, q: Value) -> Value {
    json!({"conv": conv, "hq": 1, "hr": 0, "q": q, "r": zero()})
}
fn or(conv: &str, r: Value) -> Value {
    json!({"conv": conv, "hq": 0, "hr": 1, "q": zero(), "r": r})
}
fn oqr(conv: &str, q: Value, r: Value) -> Value {
    json!({"conv": conv, "hq": 1, "hr": 1, "q": q, "r": r})
}
macro_rules! prim_val {
    ($p:expr) => {
        PrimEnc::penc($p)
    };
}
fn u128_val(p: u128) -> Value {
    PrimEnc::penc(p)
}

/// all big-by-big forms for a pair of types; $eq/$er encode the quotient / remainder types
macro_rules! big_forms {
    ($outs:expr, $x:expr, $y:expr, $eq:expr, $er:expr, assign: $assign:tt, euclid: $euclid:tt, $eeq:expr, $eer:expr) => {{
        let (x, y) = (&$x, &$y);
        $outs.push("T.q:vv", guarded(|| oq("T", $eq(&(x.clone() / y.clone())))));
        $outs.push("T.q:rv", guarded(|| oq("T", $eq(&(x / y.clone())))));
        $outs.push("T.q:vr", guarded(|| oq("T", $eq(&(x.clone() / y)))));
        $outs.push("T.q:rr", guarded(|| oq("T", $eq(&(x / y)))));
        $outs.push("T.r:vv", guarded(|| or("T", $er(&(x.clone() % y.clone())))));
        $outs.push("T.r:rv", guarded(|| or("T", $er(&(x % y.clone())))));
        $outs.push("T.r:vr", guarded(|| or("T", $er(&(x.clone() % y)))));
        $outs.push("T.r:rr", guarded(|| or("T", $er(&(x % y)))));
        $outs.push("T.qr:vv", guarded(|| { let (q, r) = x.clone().div_rem(y.clone()); oqr("T", $eq(&q), $er(&r)) }));
        $outs.push("T.qr:rv", guarded(|| { let (q, r) = x.div_rem(y.clone()); oqr("T", $eq(&q), $er(&r)) }));
        $outs.push("T.qr:vr", guarded(|| { let (q, r) = x.clone().div_rem(y); oqr("T", $eq(&q), $er(&r)) }));
        $outs.push("T.qr:rr", guarded(|| { let (q, r) = x.div_rem(y); oqr("T", $eq(&q), $er(&r)) }));
        big_forms!(@assign $assign, $outs, x, y, $eq, $er);
        big_forms!(@euclid $euclid, $outs, x, y, $eeq, $eer);
    }};
    (@assign full, $outs:expr, $x:ident, $y:ident, $eq:expr, $er:expr) => {
        $outs.push("T.q:av", guarded(|| { let mut t = $x.clone(); t /= $y.clone(); oq("T", $eq(&t)) }));
        $outs.push("T.q:ar", guarded(|| { let mut t = $x.clone(); t /= $y; oq("T", $eq(&t)) }));
        $outs.push("T.r:av", guarded(|| { let mut t = $x.clone(); t %= $y.clone(); or("T", $er(&t)) }));
        $outs.push("T.r:ar", guarded(|| { let mut t = $x.clone(); t %= $y; or("T", $er(&t)) }));
        $outs.push("T.qr:av", guarded(|| { let mut t = $x.clone(); let r = t.div_rem_assign($y.clone()); oqr("T", $eq(&t), $er(&r)) }));
        $outs.push("T.qr:ar", guarded(|| { let mut t = $x.clone(); let r = t.div_rem_assign($y); oqr("T", $eq(&t), $er(&r)) }));
    };
    (@assign divrem, $outs:expr, $x:ident, $y:ident, $eq:expr, $er:expr) => {
        $outs.push("T.q:av", guarded(|| { let mut t = $x.clone(); t /= $y.clone(); oq("T", $eq(&t)) }));
        $outs.push("T.q:ar", guarded(|| { let mut t = $x.clone(); t /= $y; oq("T", $eq(&t)) }));
        $outs.push("T.r:av", guarded(|| { let mut t = $x.clone(); t %= $y.clone(); or("T", $er(&t)) }));
        $outs.push("T.r:ar", guarded(|| { let mut t = $x.clone(); t %= $y; or("T", $er(&t)) }));
    };
    (@assign remonly, $outs:expr, $x:ident, $y:ident, $eq:expr, $er:expr) => {
        $outs.push("T.r:av", guarded(|| { let mut t = $x.clone(); t %= $y.clone(); or("T", $er(&t)) }));
        $outs.push("T.r:ar", guarded(|| { let mut t = $x.clone(); t %= $y; or("T", $er(&t)) }));
    };
    (@assign none, $outs:expr, $x:ident, $y:ident, $eq:expr, $er:expr) => {};
    (@euclid yes, $outs:expr, $x:ident, $y:ident, $eeq:expr, $eer:expr) => {
        $outs.push("E.q:vv", guarded(|| oq("E", $eeq(&($x.clone().div_euclid($y.clone()))))));
        $outs.push("E.q:rv", guarded(|| oq("E", $eeq(&($x.div_euclid($y.clone()))))));
        $outs.push("E.q:vr", guarded(|| oq("E", $eeq(&($x.clone().div_euclid($y))))));
        $outs.push("E.q:rr", guarded(|| oq("E", $eeq(&($x.div_euclid($y))))));
        $outs.push("E.r:vv", guarded(|| or("E", $eer(&($x.clone().rem_euclid($y.clone()))))));
        $outs.push("E.r:rv", guarded(|| or("E", $eer(&($x.rem_euclid($y.clone()))))));
        $outs.push("E.r:vr", guarded(|| or("E", $eer(&($x.clone().rem_euclid($y))))));
        $outs.push("E.r:rr", guarded(|| or("E", $eer(&($x.rem_euclid($y))))));
        $outs.push("E.qr:vv", guarded(|| { let (q, r) = $x.clone().div_rem_euclid($y.clone()); oqr("E", $eeq(&q), $eer(&r)) }));
        $outs.push("E.qr:rv", guarded(|| { let (q, r) = $x.div_rem_euclid($y.clone()); oqr("E", $eeq(&q), $eer(&r)) }));
        $outs.push("E.qr:vr", guarded(|| { let (q, r) = $x.clone().div_rem_euclid($y); oqr("E", $eeq(&q), $eer(&r)) }));
        $outs.push("E.qr:rr", guarded(|| { let (q, r) = $x.div_rem_euclid($y); oqr("E", $eeq(&q), $eer(&r)) }));
    };
    (@euclid no, $outs:expr, $x:ident, $y:ident, $eeq:expr, $eer:expr) => {};
}

/// big (op) primitive divisor; remainder comes back as the primitive type
macro_rules! prim_div_forms {
    ($t:ty, $p:expr, $outs:expr, $x:expr, $eq:expr) => {{
        let x = &$x; let p: $t = $p; let pre = stringify!($t);
        $outs.push(&format!("T.q:{}:vv", pre), guarded(|| oq("T", $eq(&(x.clone() / p)))));
        $outs.push(&format!("T.q:{}:rv", pre), guarded(|| oq("T", $eq(&(x / p)))));
        $outs.push(&format!("T.q:{}:vr", pre), guarded(|| oq("T", $eq(&(x.clone() / &p)))));
        $outs.push(&format!("T.q:{}:rr", pre), guarded(|| oq("T", $eq(&(x / &p)))));
        $outs.push(&format!("T.r:{}:vv", pre), guarded(|| or("T", prim_val!(x.clone() % p))));
        $outs.push(&format!("T.r:{}:rv", pre), guarded(|| or("T", prim_val!(x % p))));
        $outs.push(&format!("T.r:{}:vr", pre), guarded(|| or("T", prim_val!(x.clone() % &p))));
        $outs.push(&format!("T.r:{}:rr", pre), guarded(|| or("T", prim_val!(x % &p))));
        $outs.push(&format!("T.qr:{}:vv", pre), guarded(|| { let (q, r) = x.clone().div_rem(p); oqr("T", $eq(&q), prim_val!(r)) }));
        $outs.push(&format!("T.qr:{}:rv", pre), guarded(|| { let (q, r) = x.div_rem(p); oqr("T", $eq(&q), prim_val!(r)) }));
        $outs.push(&format!("T.qr:{}:vr", pre), guarded(|| { let (q, r) = x.clone().div_rem(&p); oqr("T", $eq(&q), prim_val!(r)) }));
        $outs.push(&format!("T.qr:{}:rr", pre), guarded(|| { let (q, r) = x.div_rem(&p); oqr("T", $eq(&q), prim_val!(r)) }));
        $outs.push(&format!("T.q:{}:av", pre), guarded(|| { let mut t = x.clone(); t /= p; oq("T", $eq(&t)) }));
        $outs.push(&format!("T.q:{}:ar", pre), guarded(|| { let mut t = x.clone(); t /= &p; oq("T", $eq(&t)) }));
        $outs.push(&format!("T.qr:{}:av", pre), guarded(|| { let mut t = x.clone(); let r = t.div_rem_assign(p); oqr("T", $eq(&t), prim_val!(r)) }));
        $outs.push(&format!("T.qr:{}:ar", pre), guarded(|| { let mut t = x.clone(); let r = t.div_rem_assign(&p); oqr("T", $eq(&t), prim_val!(r)) }));
    }};
}
/// primitive dividend / big divisor -> primitive quotient
macro_rules! prim_dividend_forms {
    ($t:ty, $p:expr, $outs:expr, $y:expr) => {{
        let y = &$y; let p: $t = $p; let pre = stringify!($t);
        $outs.push(&format!("T.q:{}~:vv", pre), guarded(|| oq("T", prim_val!(p / y.clone()))));
        $outs.push(&format!("T.q:{}~:rv", pre), guarded(|| oq("T", prim_val!(&p / y.clone()))));
        $outs.push(&format!("T.q:{}~:vr", pre), guarded(|| oq("T", prim_val!(p / y))));
        $outs.push(&format!("T.q:{}~:rr", pre), guarded(|| oq("T", prim_val!(&p / y))));
    }};
}
macro_rules! each_unsigned {
    ($v:expr, $m:ident, $($args:tt)*) => {{
        let v: u128 = $v;
        if v <= u8::MAX as u128 { $m!(u8, v as u8, $($args)*); }
        if v <= u16::MAX as u128 { $m!(u16, v as u16, $($args)*); }
        if v <= u32::MAX as u128 { $m!(u32, v as u32, $($args)*); }
        if v <= u64::MAX as u128 { $m!(u64, v as u64, $($args)*); $m!(usize, v as usize, $($args)*); }
    }};
}
macro_rules! each_signed {
    ($v:expr, $m:ident, $($args:tt)*) => {{
        let v: i128 = $v;
        if v >= i8::MIN as i128 && v <= i8::MAX as i128 { $m!(i8, v as i8, $($args)*); }
        if v >= i16::MIN as i128 && v <= i16::MAX as i128 { $m!(i16, v as i16, $($args)*); }
        if v >= i32::MIN as i128 && v <= i32::MAX as i128 { $m!(i32, v as i32, $($args)*); }
        if v >= i64::MIN as i128 && v <= i64::MAX as i128 { $m!(i64, v as i64, $($args)*); $m!(isize, v as isize, $($args)*); }
        $m!(i128, v, $($args)*);
    }};
}

fn eu(x: &UBig) -> Value {
    enc_u(x)
}
fn ei(x: &IBig) -> Value {
    enc_i(x)
}

fn mag_bytes(x: &IBig) -> (bool, Vec<u8>) {
    let (s, w) = x.as_sign_words();
    (s == dashu_int::Sign::Negative, words_to_bytes(w))
}

pub fn run_case(log: &mut Log, lt: &str, rt: &str, a: &IBig, b: &IBig, src: &str) {
    let a_eff = if lt == "U" { IBig::from(ubig_from_bytes(&mag_bytes(a).1)) } else { a.clone() };
    let b_eff = if rt == "U" || rt == "C" { IBig::from(ubig_from_bytes(&mag_bytes(b).1)) } else { b.clone() };
    let (sa, ma) = mag_bytes(&a_eff);
    let (sb, mb) = mag_bytes(&b_eff);
    let mut outs = Outs::new();
    match (lt, rt) {
        ("U", "U") => {
            let (x, y) = (ubig_from_bytes(&ma), ubig_from_bytes(&mb));
            big_forms!(outs, x, y, eu, eu, assign: full, euclid: yes, eu, eu);
            outs.push("M", guarded(|| json!({"conv": "M", "mult": x.is_multiple_of(&y)})));
            if let Some(v) = small_mag(&mb) {
                each_unsigned!(v, prim_div_forms, outs, x, eu);
                // u128 remainder type
                outs.push("T.r:u128:rv", guarded(|| or("T", u128_val(&x % v))));
                outs.push("T.q:u128:rv", guarded(|| oq("T", eu(&(&x / v)))));
                outs.push("T.qr:u128:rv", guarded(|| { let (q, r) = (&x).div_rem(v); oqr("T", eu(&q), u128_val(r)) }));
                if v <= dashu_int::DoubleWord::MAX as u128 {
                    outs.push("Mc", guarded(|| json!({"conv": "M", "mult": x.is_multiple_of_const(v as dashu_int::DoubleWord)})));
                }
            }
            if let Some(v) = small_mag(&ma) {
                each_unsigned!(v, prim_dividend_forms, outs, y);
            }
        }
        ("I", "I") => {
            let (x, y) = (a_eff.clone(), b_eff.clone());
            big_forms!(outs, x, y, ei, ei, assign: full, euclid: yes, ei, eu);
            outs.push("M", guarded(|| json!({"conv": "M", "mult": x.is_multiple_of(&y)})));
            if !sb {
                if let Some(v) = small_mag(&mb) {
                    each_unsigned!(v, prim_div_forms, outs, x, ei);
                }
            }
            if let Some(v) = small_signed(sb, &mb) {
                each_signed!(v, prim_div_forms, outs, x, ei);
            }
            if !sa {
                if let Some(v) = small_mag(&ma) {
                    each_unsigned!(v, prim_dividend_forms, outs, y);
                }
            }
            if let Some(v) = small_signed(sa, &ma) {
                each_signed!(v, prim_dividend_forms, outs, y);
            }
        }
        ("U", "I") => {
            let (x, y) = (ubig_from_bytes(&ma), b_eff.clone());
            big_forms!(outs, x, y, ei, eu, assign: remonly, euclid: no, ei, eu);
        }
        ("I", "U") => {
            let (x, y) = (a_eff.clone(), ubig_from_bytes(&mb));
            big_forms!(outs, x, y, ei, ei, assign: divrem, euclid: no, ei, eu);
        }
        // ConstDivisor forms; the divisor is built once per form family
        ("U", "C") | ("I", "C") => {
            let d = ubig_from_bytes(&mb);
            match guarded(|| ConstDivisor::new(d.clone())) {
                Err(m) => outs.push("C.new", Err(m)),
                Ok(cd) => {
                    outs.push("C.value", guarded(|| or("V", eu(&cd.value()))));
                    if lt == "U" {
                        let x = ubig_from_bytes(&ma);
                        outs.push("T.q:C:v", guarded(|| oq("T", eu(&(x.clone() / &cd)))));
                        outs.push("T.q:C:r", guarded(|| oq("T", eu(&(&x / &cd)))));
                        outs.push("T.r:C:v", guarded(|| or("T", eu(&(x.clone() % &cd)))));
                        outs.push("T.r:C:r", guarded(|| or("T", eu(&(&x % &cd)))));
                        outs.push("T.qr:C:v", guarded(|| { let (q, r) = x.clone().div_rem(&cd); oqr("T", eu(&q), eu(&r)) }));
                        outs.push("T.qr:C:r", guarded(|| { let (q, r) = (&x).div_rem(&cd); oqr("T", eu(&q), eu(&r)) }));
                        outs.push("T.q:C:a", guarded(|| { let mut t = x.clone(); t /= &cd; oq("T", eu(&t)) }));
                        outs.push("T.r:C:a", guarded(|| { let mut t = x.clone(); t %= &cd; or("T", eu(&t)) }));
                        outs.push("T.qr:C:a", guarded(|| { let mut t = x.clone(); let r = t.div_rem_assign(&cd); oqr("T", eu(&t), eu(&r)) }));
                    } else {
                        let x = a_eff.clone();
                        outs.push("T.q:C:v", guarded(|| oq("T", ei(&(x.clone() / &cd)))));
                        outs.push("T.q:C:r", guarded(|| oq("T", ei(&(&x / &cd)))));
                        outs.push("T.r:C:v", guarded(|| or("T", ei(&(x.clone() % &cd)))));
                        outs.push("T.r:C:r", guarded(|| or("T", ei(&(&x % &cd)))));
                        outs.push("T.qr:C:v", guarded(|| { let (q, r) = x.clone().div_rem(&cd); oqr("T", ei(&q), ei(&r)) }));
                        outs.push("T.qr:C:r", guarded(|| { let (q, r) = (&x).div_rem(&cd); oqr("T", ei(&q), ei(&r)) }));
                        outs.push("T.q:C:a", guarded(|| { let mut t = x.clone(); t /= &cd; oq("T", ei(&t)) }));
                        outs.push("T.r:C:a", guarded(|| { let mut t = x.clone(); t %= &cd; or("T", ei(&t)) }));
                        outs.push("T.qr:C:a", guarded(|| { let mut t = x.clone(); let r = t.div_rem_assign(&cd); oqr("T", ei(&t), ei(&r)) }));
                    }
                }
            }
        }
        _ => panic!("bad type pair"),
    }
    log.ev(json!({"prop": "C02", "op": "divmod", "lt": lt, "rt": rt, "src": src,
        "a": enc_i(&a_eff), "b": enc_i(&b_eff), "outs": outs.grouped()}));
}

fn main() {
    let args = &start();
    let mut log = Log::create(&args.out);
    let mut rng = Rng::new(args.seed);
    if let Some(path) = &args.cases {
        for c in read_cases(path) {
            run_case(&mut log, c["lt"].as_str().unwrap(), c["rt"].as_str().unwrap(), &dec_i(&c["a"]), &dec_i(&c["b"]), "gen");
        }
    }
    let pairs = [("U", "U"), ("I", "I"), ("I", "I"), ("U", "I"), ("I", "U"), ("U", "C"), ("I", "C")];
    for _ in 0..args.n {
        let (lt, rt) = *rng.pick(&pairs);
        // a := q*b + r by construction (uses the library's + and *, which C01 covers; the monitor
        // recomputes everything from a and b alone)
        let b = match rng.below(12) {
            0 => IBig::ZERO,
            1 | 2 => random_ibig(&mut rng, 1),
            3 | 4 => random_ibig(&mut rng, 2),
            _ => random_ibig(&mut rng, args.max_words),
        };
        let q = match rng.below(8) {
            0 => IBig::ZERO,
            1 => IBig::ONE,
            2 => random_ibig(&mut rng, 2),
            _ => random_ibig(&mut rng, args.max_words),
        };
        let r = match rng.below(4) {
            0 => IBig::ZERO,
            1 => IBig::ONE,
            _ => random_ibig(&mut rng, args.max_words),
        };
        let a = if rng.below(6) == 0 { random_ibig(&mut rng, args.max_words) } else { guarded_or(q.clone(), || &q * &b + &r) };
        run_case(&mut log, lt, rt, &a, &b, "rnd");
    }
    let n = log.finish();
    eprintln!("c02: {} events", n);
}
