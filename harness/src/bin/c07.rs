//! C07: integer text in radix 2..=36 (print, parse, formatter layout), byte and chunk encodings.
//!
//! No oracle here: every case is executed through the public API and what came back is logged.
//! Text travels as arrays of byte codes.  Events are valid cases (same field names), so a logged
//! event can be replayed with `--cases`.
//!
//! Case kinds (`op`):
//!   fmt         {ty, v, kind, radix, w, fill, align, plus, alt, zero, chain}   -> out {k, text}, hasprim, prim
//!   parse       {ty, fn, radix, text, chain}                                   -> outs [{forms, out {k, v, radix | kind}}]
//!   to_bytes    {ty, v}                                                        -> out {k, le, be, rle, rbe}
//!   from_bytes  {ty, endian, bytes}                                            -> out {k, v}
//!   to_chunks   {v, cb}                                                        -> out {k, chunks, back}
//!   from_chunks {chunks, cb}                                                   -> out {k, v}
//! `chain`: "" | "radix" | "prefix" -- a successful result is fed to the inverse operation and that
//! call is logged as its own event (src = "chain").
use dashu_base::ParseError;
use dashu_int::{IBig, UBig};
use dashu_verif_harness::common::*;
use dashu_verif_harness::forms::*;
use serde_json::{json, Value};
use std::fmt::{Binary, Display, LowerHex, Octal, UpperHex};
use std::str::FromStr;

// ---------------------------------------------------------------- runtime formatter flags
#[derive(Clone, Debug)]
struct Flags {
    w: Option<usize>,
    fill: usize,  // index into FILLS
    align: usize, // 0 none, 1 '<', 2 '^', 3 '>'
    plus: bool,
    alt: bool,
    zero: bool,
}
/// fill characters compiled into the format strings below (same order)
const FILLS: [&str; 4] = [" ", "*", "0", "\u{e9}"];
const ALIGNS: [&str; 4] = ["n", "l", "c", "r"];

macro_rules! f1 {
    ($v:expr, $w:expr, [$($p:literal),*], $ty:literal) => {
        match $w {
            Some(w) => format!(concat!("{:", $($p,)* "w$", $ty, "}"), $v, w = w),
            None => format!(concat!("{:", $($p,)* $ty, "}"), $v),
        }
    };
}
macro_rules! f8 {
    ($v:expr, $w:expr, $fa:literal, $ty:literal, $p:expr, $a:expr, $z:expr) => {
        match ($p, $a, $z) {
            (false, false, false) => f1!($v, $w, [$fa], $ty),
            (true, false, false) => f1!($v, $w, [$fa, "+"], $ty),
            (false, true, false) => f1!($v, $w, [$fa, "#"], $ty),
            (true, true, false) => f1!($v, $w, [$fa, "+", "#"], $ty),
            (false, false, true) => f1!($v, $w, [$fa, "0"], $ty),
            (true, false, true) => f1!($v, $w, [$fa, "+", "0"], $ty),
            (false, true, true) => f1!($v, $w, [$fa, "#", "0"], $ty),
            (true, true, true) => f1!($v, $w, [$fa, "+", "#", "0"], $ty),
        }
    };
}
macro_rules! ffa {
    ($v:expr, $fl:expr, $ty:literal) => {{
        let fl: &Flags = $fl;
        let (w, p, a, z) = (fl.w, fl.plus, fl.alt, fl.zero);
        match (fl.fill, fl.align) {
            (_, 0) => f8!($v, w, "", $ty, p, a, z),
            (0, 1) => f8!($v, w, " <", $ty, p, a, z),
            (0, 2) => f8!($v, w, " ^", $ty, p, a, z),
            (0, 3) => f8!($v, w, " >", $ty, p, a, z),
            (1, 1) => f8!($v, w, "*<", $ty, p, a, z),
            (1, 2) => f8!($v, w, "*^", $ty, p, a, z),
            (1, 3) => f8!($v, w, "*>", $ty, p, a, z),
            (2, 1) => f8!($v, w, "0<", $ty, p, a, z),
            (2, 2) => f8!($v, w, "0^", $ty, p, a, z),
            (2, 3) => f8!($v, w, "0>", $ty, p, a, z),
            (3, 1) => f8!($v, w, "\u{e9}<", $ty, p, a, z),
            (3, 2) => f8!($v, w, "\u{e9}^", $ty, p, a, z),
            (3, 3) => f8!($v, w, "\u{e9}>", $ty, p, a, z),
            _ => panic!("harness: unsupported fill/align"),
        }
    }};
}
fn fmt_disp<T: Display>(v: &T, fl: &Flags) -> String {
    ffa!(v, fl, "")
}
fn fmt_bin<T: Binary>(v: &T, fl: &Flags) -> String {
    ffa!(v, fl, "b")
}
fn fmt_oct<T: Octal>(v: &T, fl: &Flags) -> String {
    ffa!(v, fl, "o")
}
fn fmt_lhex<T: LowerHex>(v: &T, fl: &Flags) -> String {
    ffa!(v, fl, "x")
}
fn fmt_uhex<T: UpperHex>(v: &T, fl: &Flags) -> String {
    ffa!(v, fl, "X")
}
fn fmt_kind<T: Display + Binary + Octal + LowerHex + UpperHex>(v: &T, kind: &str, fl: &Flags) -> String {
    match kind {
        "display" => fmt_disp(v, fl),
        "binary" => fmt_bin(v, fl),
        "octal" => fmt_oct(v, fl),
        "lhex" => fmt_lhex(v, fl),
        "uhex" => fmt_uhex(v, fl),
        other => panic!("harness: unknown kind {}", other),
    }
}

fn bytes_of(v: &Value) -> Vec<u8> {
    v.as_array().map(|a| a.iter().map(|b| b.as_u64().unwrap() as u8).collect()).unwrap_or_default()
}
fn flags_of(c: &Value) -> Flags {
    let w = c["w"].as_i64().unwrap_or(-1);
    let fill = bytes_of(&c["fill"]);
    let fill = FILLS.iter().position(|f| f.as_bytes() == &fill[..]).unwrap_or_else(|| panic!("harness: unknown fill {:?}", fill));
    let align = ALIGNS.iter().position(|a| Some(*a) == c["align"].as_str()).expect("harness: align");
    Flags {
        w: if w < 0 { None } else { Some(w as usize) },
        fill,
        align,
        plus: c["plus"].as_bool().unwrap_or(false),
        alt: c["alt"].as_bool().unwrap_or(false),
        zero: c["zero"].as_bool().unwrap_or(false),
    }
}
fn flags_json(ev: &mut Value, fl: &Flags) {
    ev["w"] = json!(fl.w.map(|w| w as i64).unwrap_or(-1));
    ev["fill"] = json!(FILLS[fl.fill].as_bytes());
    ev["align"] = json!(ALIGNS[fl.align]);
    ev["plus"] = json!(fl.plus);
    ev["alt"] = json!(fl.alt);
    ev["zero"] = json!(fl.zero);
}
const PLAIN: Flags = Flags { w: None, fill: 0, align: 0, plus: false, alt: false, zero: false };

// ---------------------------------------------------------------- fmt
/// Rust's own formatting of the same number with the same flags, where a primitive has the same
/// notion (Display for any sign; b/o/x/X only for non-negative numbers, because primitives print
/// negative numbers in these radices as two's complement).
fn primitive_text(ty: &str, v: &IBig, kind: &str, radix: u32, fl: &Flags) -> Option<String> {
    let (sign, words) = v.as_sign_words();
    let neg = sign == dashu_int::Sign::Negative;
    let mag = words_to_bytes(words);
    let kind = match (kind, radix, fl.alt) {
        ("inradix", 10, _) => "display",
        ("inradix", 2, false) => "binary",
        ("inradix", 8, false) => "octal",
        ("inradix", 16, false) => "lhex",
        ("inradix", _, _) => return None,
        (k, _, _) => k,
    };
    if neg && kind != "display" {
        return None;
    }
    if ty == "U" {
        small_mag(&mag).map(|x| fmt_kind(&x, kind, fl))
    } else {
        small_signed(neg, &mag).map(|x| fmt_kind(&x, kind, fl))
    }
}

fn run_fmt(log: &mut Log, c: &Value, src: &str) {
    let ty = c["ty"].as_str().unwrap();
    let v = dec_i(&c["v"]);
    let kind = c["kind"].as_str().unwrap();
    let radix = c["radix"].as_u64().unwrap_or(10) as u32;
    let fl = flags_of(c);
    let chain = c["chain"].as_str().unwrap_or("");
    let u = ubig_from_bytes(&words_to_bytes(v.as_sign_words().1));
    let v_eff = if ty == "U" { IBig::from(u.clone()) } else { v.clone() };
    let r = guarded(|| match (ty, kind) {
        ("U", "inradix") => fmt_disp(&u.in_radix(radix), &fl),
        ("I", "inradix") => fmt_disp(&v_eff.in_radix(radix), &fl),
        ("U", k) => fmt_kind(&u, k, &fl),
        (_, k) => fmt_kind(&v_eff, k, &fl),
    });
    let prim = primitive_text(ty, &v_eff, kind, radix, &fl);
    let mut ev = json!({"prop": "C07", "op": "fmt", "ty": ty, "v": enc_i(&v_eff), "kind": kind, "radix": radix,
        "chain": chain, "src": src, "hasprim": prim.is_some(), "prim": prim.as_deref().unwrap_or("").as_bytes()});
    flags_json(&mut ev, &fl);
    ev["out"] = match &r {
        Ok(s) => json!({"k": "ok", "text": s.as_bytes()}),
        Err(m) => json!({"k": "panic", "msg": m}),
    };
    log.ev(ev);
    if let (Ok(s), true) = (&r, !chain.is_empty()) {
        let f = if chain == "prefix" { "default" } else { "radix" };
        run_parse(log, ty, f, radix, s.as_bytes(), "", "chain");
    }
}

// ---------------------------------------------------------------- parse
fn perr(e: ParseError) -> &'static str {
    match e {
        ParseError::NoDigits => "NoDigits",
        ParseError::InvalidDigit => "InvalidDigit",
        ParseError::UnsupportedRadix => "UnsupportedRadix",
        ParseError::InconsistentRadix => "InconsistentRadix",
    }
}
fn pout(r: Result<Result<(Value, u32), ParseError>, String>) -> Value {
    match r {
        Ok(Ok((v, radix))) => json!({"k": "ok", "v": v, "radix": radix}),
        Ok(Err(e)) => json!({"k": "err", "kind": perr(e)}),
        Err(m) => json!({"k": "panic", "msg": m}),
    }
}

fn run_parse(log: &mut Log, ty: &str, func: &str, radix: u32, text: &[u8], chain: &str, src: &str) {
    let s = match std::str::from_utf8(text) {
        Ok(s) => s,
        Err(_) => panic!("harness: case text is not UTF-8"),
    };
    let mut outs = Outs::new();
    macro_rules! form {
        ($name:expr, $e:expr) => {
            outs.0.push(($name.to_string(), pout(guarded(|| $e))))
        };
    }
    match (ty, func) {
        ("U", "radix") => form!("from_str_radix", UBig::from_str_radix(s, radix).map(|v| (enc_u(&v), radix))),
        ("I", "radix") => form!("from_str_radix", IBig::from_str_radix(s, radix).map(|v| (enc_i(&v), radix))),
        ("U", "str") => {
            form!("from_str", UBig::from_str(s).map(|v| (enc_u(&v), 10)));
            form!("parse", s.parse::<UBig>().map(|v| (enc_u(&v), 10)));
            form!("from_str_radix10", UBig::from_str_radix(s, 10).map(|v| (enc_u(&v), 10)));
        }
        ("I", "str") => {
            form!("from_str", IBig::from_str(s).map(|v| (enc_i(&v), 10)));
            form!("parse", s.parse::<IBig>().map(|v| (enc_i(&v), 10)));
            form!("from_str_radix10", IBig::from_str_radix(s, 10).map(|v| (enc_i(&v), 10)));
        }
        ("U", "prefix") => {
            form!("with_radix_prefix", UBig::from_str_with_radix_prefix(s).map(|(v, r)| (enc_u(&v), r)));
            form!("with_radix_default10", UBig::from_str_with_radix_default(s, 10).map(|(v, r)| (enc_u(&v), r)));
        }
        ("I", "prefix") => {
            form!("with_radix_prefix", IBig::from_str_with_radix_prefix(s).map(|(v, r)| (enc_i(&v), r)));
            form!("with_radix_default10", IBig::from_str_with_radix_default(s, 10).map(|(v, r)| (enc_i(&v), r)));
        }
        ("U", "default") => form!("with_radix_default", UBig::from_str_with_radix_default(s, radix).map(|(v, r)| (enc_u(&v), r))),
        ("I", "default") => form!("with_radix_default", IBig::from_str_with_radix_default(s, radix).map(|(v, r)| (enc_i(&v), r))),
        _ => panic!("harness: unknown parse function {} {}", ty, func),
    }
    let first = outs.0[0].1.clone();
    let radix_ev = if func == "str" || func == "prefix" { 10 } else { radix };
    log.ev(json!({"prop": "C07", "op": "parse", "ty": ty, "fn": func, "radix": radix_ev, "text": text, "chain": chain,
        "src": src, "outs": outs.grouped()}));
    if !chain.is_empty() && first["k"] == "ok" {
        let r = first["radix"].as_u64().unwrap() as u32;
        let mut c = json!({"ty": ty, "v": first["v"], "kind": "inradix", "radix": r, "chain": ""});
        flags_json(&mut c, &PLAIN);
        run_fmt(log, &c, "chain");
    }
}

// ---------------------------------------------------------------- bytes, chunks
fn run_to_bytes(log: &mut Log, ty: &str, v: &IBig, src: &str) {
    let u = ubig_from_bytes(&words_to_bytes(v.as_sign_words().1));
    let v_eff = if ty == "U" { IBig::from(u.clone()) } else { v.clone() };
    let r = guarded(|| {
        if ty == "U" {
            let (le, be) = (u.to_le_bytes(), u.to_be_bytes());
            let (rle, rbe) = (UBig::from_le_bytes(&le), UBig::from_be_bytes(&be));
            json!({"k": "ok", "le": le.to_vec(), "be": be.to_vec(), "rle": enc_u(&rle), "rbe": enc_u(&rbe)})
        } else {
            let (le, be) = (v_eff.to_le_bytes(), v_eff.to_be_bytes());
            let (rle, rbe) = (IBig::from_le_bytes(&le), IBig::from_be_bytes(&be));
            json!({"k": "ok", "le": le.to_vec(), "be": be.to_vec(), "rle": enc_i(&rle), "rbe": enc_i(&rbe)})
        }
    });
    let out = r.unwrap_or_else(|m| json!({"k": "panic", "msg": m}));
    log.ev(json!({"prop": "C07", "op": "to_bytes", "ty": ty, "v": enc_i(&v_eff), "src": src, "out": out}));
}
fn run_from_bytes(log: &mut Log, ty: &str, endian: &str, bytes: &[u8], src: &str) {
    let r = guarded(|| match (ty, endian) {
        ("U", "le") => enc_u(&UBig::from_le_bytes(bytes)),
        ("U", _) => enc_u(&UBig::from_be_bytes(bytes)),
        (_, "le") => enc_i(&IBig::from_le_bytes(bytes)),
        (_, _) => enc_i(&IBig::from_be_bytes(bytes)),
    });
    let out = match r {
        Ok(v) => json!({"k": "ok", "v": v}),
        Err(m) => json!({"k": "panic", "msg": m}),
    };
    log.ev(json!({"prop": "C07", "op": "from_bytes", "ty": ty, "endian": endian, "bytes": bytes, "src": src, "out": out}));
}
fn run_to_chunks(log: &mut Log, v: &UBig, cb: usize, src: &str) {
    let r = guarded(|| {
        let chunks = v.to_chunks(cb);
        let back = UBig::from_chunks(chunks.iter(), cb);
        json!({"k": "ok", "chunks": chunks.iter().map(enc_u).collect::<Vec<_>>(), "back": enc_u(&back)})
    });
    let out = r.unwrap_or_else(|m| json!({"k": "panic", "msg": m}));
    log.ev(json!({"prop": "C07", "op": "to_chunks", "v": enc_u(v), "cb": cb, "src": src, "out": out}));
}
fn run_from_chunks(log: &mut Log, chunks: &[UBig], cb: usize, src: &str) {
    let r = guarded(|| enc_u(&UBig::from_chunks(chunks.iter(), cb)));
    let out = match r {
        Ok(v) => json!({"k": "ok", "v": v}),
        Err(m) => json!({"k": "panic", "msg": m}),
    };
    log.ev(json!({"prop": "C07", "op": "from_chunks", "chunks": chunks.iter().map(enc_u).collect::<Vec<_>>(), "cb": cb,
        "src": src, "out": out}));
}

fn run_case(log: &mut Log, c: &Value, src: &str) {
    match c["op"].as_str().unwrap() {
        "fmt" => run_fmt(log, c, src),
        "parse" => run_parse(log, c["ty"].as_str().unwrap(), c["fn"].as_str().unwrap(), c["radix"].as_u64().unwrap_or(10) as u32,
            &bytes_of(&c["text"]), c["chain"].as_str().unwrap_or(""), src),
        "to_bytes" => run_to_bytes(log, c["ty"].as_str().unwrap(), &dec_i(&c["v"]), src),
        "from_bytes" => run_from_bytes(log, c["ty"].as_str().unwrap(), c["endian"].as_str().unwrap(), &bytes_of(&c["bytes"]), src),
        "to_chunks" => run_to_chunks(log, &dec_u(&c["v"]), c["cb"].as_u64().unwrap() as usize, src),
        "from_chunks" => {
            let chunks: Vec<UBig> = c["chunks"].as_array().unwrap().iter().map(dec_u).collect();
            run_from_chunks(log, &chunks, c["cb"].as_u64().unwrap() as usize, src)
        }
        other => panic!("harness: unknown op {}", other),
    }
}

// ---------------------------------------------------------------- seeded random driver
fn digit_char(d: u32, upper: bool) -> char {
    let c = std::char::from_digit(d, 36).unwrap();
    if upper {
        c.to_ascii_uppercase()
    } else {
        c
    }
}
/// a derivation of the documented grammar, optionally damaged by one random edit
fn random_text(rng: &mut Rng, radix: u32, with_prefix: bool) -> String {
    let mut s = String::new();
    match rng.below(4) {
        0 => s.push('+'),
        1 => s.push('-'),
        _ => {}
    }
    if with_prefix && rng.below(3) > 0 {
        s.push_str(match radix {
            2 => "0b",
            8 => "0o",
            16 => "0x",
            _ => "",
        });
    }
    let n = match rng.below(6) {
        0 => 1,
        1 => rng.range(60, 90) as usize,
        _ => rng.range(1, 30) as usize,
    };
    for i in 0..n {
        if i > 0 && rng.below(6) == 0 {
            s.push('_');
        }
        s.push(digit_char(rng.below(radix as u64) as u32, rng.coin()));
    }
    if rng.below(5) < 2 {
        // one random edit
        let nasty: Vec<char> = vec!['+', '-', '_', ' ', '.', 'x', 'b', 'o', 'X', 'z', 'Z', 'g', '9', '2', '8', '\u{e9}', '\u{663}', '\u{ff11}', '/', ':', '@', '`', '{'];
        let chars: Vec<char> = s.chars().collect();
        let pos = rng.below(chars.len() as u64 + 1) as usize;
        let mut out: Vec<char> = chars.clone();
        match rng.below(4) {
            0 => out.insert(pos, *rng.pick(&nasty)),
            1 if !out.is_empty() => {
                out.remove(pos.min(out.len() - 1));
            }
            2 if !out.is_empty() => {
                let p = pos.min(out.len() - 1);
                out[p] = *rng.pick(&nasty);
            }
            _ => out = vec![*rng.pick(&nasty)],
        }
        s = out.into_iter().collect();
    }
    s
}
fn random_flags(rng: &mut Rng) -> Flags {
    let align = rng.below(4) as usize;
    Flags {
        w: if rng.below(4) == 0 { None } else { Some(rng.below(40) as usize) },
        fill: if align == 0 { 0 } else { rng.below(4) as usize },
        align,
        plus: rng.coin(),
        alt: rng.coin(),
        zero: rng.below(3) == 0,
    }
}

fn main() {
    let args = &start();
    let mut log = Log::create(&args.out);
    let mut rng = Rng::new(args.seed);
    if let Some(path) = &args.cases {
        for c in read_cases(path) {
            run_case(&mut log, &c, "gen");
        }
    }
    const KINDS: [&str; 6] = ["display", "binary", "octal", "lhex", "uhex", "inradix"];
    for _ in 0..args.n {
        let k = rng.below(100);
        let ty = if rng.coin() { "U" } else { "I" };
        if k < 30 {
            // formatting with random flags; small values often (they have a primitive counterpart)
            let v = if rng.coin() { random_ibig(&mut rng, 2) } else { random_ibig(&mut rng, args.max_words) };
            let kind = *rng.pick(&KINDS);
            let radix = match kind {
                "display" => 10,
                "binary" => 2,
                "octal" => 8,
                "lhex" | "uhex" => 16,
                _ => rng.range(2, 36) as u32,
            };
            let fl = random_flags(&mut rng);
            let mut c = json!({"ty": ty, "v": enc_i(&v), "kind": kind, "radix": radix, "chain": ""});
            flags_json(&mut c, &fl);
            run_fmt(&mut log, &c, "rnd");
        } else if k < 50 {
            // print -> parse round trip, plain flags, any radix
            let v = random_ibig(&mut rng, args.max_words);
            let radix = rng.range(2, 36) as u32;
            let mut c = json!({"ty": ty, "v": enc_i(&v), "kind": "inradix", "radix": radix, "chain": "radix"});
            let mut fl = PLAIN.clone();
            fl.alt = rng.coin();
            fl.plus = rng.coin();
            flags_json(&mut c, &fl);
            run_fmt(&mut log, &c, "rnd");
        } else if k < 75 {
            // arbitrary strings around the grammar
            let func = *rng.pick(&["radix", "radix", "str", "prefix", "default"]);
            let radix = match func {
                "str" => 10,
                "prefix" => *rng.pick(&[2u32, 8, 10, 16]),
                "default" => *rng.pick(&[2u32, 8, 10, 16, 7, 36, 12]),
                _ => rng.range(2, 36) as u32,
            };
            let text_radix = if func == "default" && rng.coin() { *rng.pick(&[2u32, 8, 16]) } else { radix };
            let s = random_text(&mut rng, text_radix, func == "prefix" || func == "default");
            let default_radix = if func == "prefix" { 10 } else { radix };
            run_parse(&mut log, ty, func, default_radix, s.as_bytes(), if rng.below(4) == 0 { "radix" } else { "" }, "rnd");
        } else if k < 85 {
            let v = random_ibig(&mut rng, args.max_words.min(12));
            run_to_bytes(&mut log, ty, &v, "rnd");
        } else if k < 92 {
            let n = rng.below(40) as usize;
            let mut bytes: Vec<u8> = (0..n).map(|_| rng.next() as u8).collect();
            if n > 0 && rng.coin() {
                // sign-extension bytes on top
                let ext = if rng.coin() { 0xff } else { 0 };
                let cnt = rng.below(4) as usize;
                for _ in 0..cnt {
                    bytes.push(ext);
                }
            }
            let endian = if rng.coin() { "le" } else { "be" };
            if endian == "be" {
                bytes.reverse();
            }
            run_from_bytes(&mut log, ty, endian, &bytes, "rnd");
        } else if k < 97 {
            let v = random_ubig(&mut rng, args.max_words.min(6));
            let cb = *rng.pick(&[1usize, 3, 7, 8, 31, 32, 33, 63, 64, 65, 100, 127, 128, 129, 192, 200]);
            run_to_chunks(&mut log, &v, cb, "rnd");
        } else {
            let cb = *rng.pick(&[1usize, 7, 8, 63, 64, 65, 128, 129]);
            let cnt = rng.below(6) as usize;
            let chunks: Vec<UBig> = (0..cnt).map(|_| random_ubig(&mut rng, 3)).collect();
            run_from_chunks(&mut log, &chunks, cb, "rnd");
        }
    }
    let n = log.finish();
    eprintln!("c07: {} events", n);
}
