//! C03: Context::{add, sub, mul, div, sqrt, sqr, cubic, inv} and the FBig operator / method forms
//! built on them, in every call form, for bases {2, 3, 8, 10, 16, 36} x six rounding modes.
//!
//! No oracle here: operands are built from the case, dashu is called, and what came back (value,
//! flag, or panic) is written as an event.  The only comparison is equality of the Context result
//! with the algorithm-layer prediction carried by generated cases (`pred`), reported as `drift`.
use dashu_base::{Approximation, Inverse, SquareRoot};
use dashu_float::round::{Round, Rounding};
use dashu_float::{Context, FBig, Repr};
use dashu_int::{IBig, UBig, Word};
use dashu_verif_harness::common::*;
use dashu_verif_harness::fwire::*;
use dashu_verif_harness::{dispatch_base, dispatch_mode};
use serde_json::{json, Value};

// ------------------------------------------------------------------ wire helpers
/// integer of a case: plain JSON int (small-scope cases printed by TLC) or {s, m}
fn dec_int(v: &Value) -> IBig {
    if let Some(i) = v.as_i64() {
        IBig::from(i)
    } else {
        dec_i(v)
    }
}
fn dec_repr2<const B: Word>(v: &Value) -> Repr<B> {
    match v["inf"].as_i64().unwrap_or(0) {
        1 => Repr::<B>::infinity(),
        -1 => Repr::<B>::neg_infinity(),
        _ => Repr::<B>::new(dec_int(&v["sig"]), v["exp"].as_i64().unwrap_or(0) as isize),
    }
}

/// groups of call forms that returned the same value; `flags`: the distinct flags reported by the
/// flag-returning forms of the group
struct Groups(Vec<(Value, Vec<String>, Vec<String>)>);
impl Groups {
    fn new() -> Self {
        Groups(Vec::new())
    }
    fn add(&mut self, form: &str, r: Result<(Value, Option<&'static str>), String>) {
        let (key, flag) = match r {
            Ok((v, f)) => (json!({"k": "ok", "v": v}), f),
            Err(_) => (json!({"k": "panic"}), None),
        };
        let g = match self.0.iter_mut().position(|g| g.0 == key) {
            Some(i) => &mut self.0[i],
            None => {
                self.0.push((key, vec![], vec![]));
                self.0.last_mut().unwrap()
            }
        };
        g.1.push(form.to_string());
        if let Some(f) = flag {
            if !g.2.iter().any(|x| x == f) {
                g.2.push(f.to_string());
            }
        }
    }
    fn to_json(self) -> Value {
        Value::Array(self.0.into_iter().map(|(o, fs, fl)| json!({"forms": fs, "out": o, "flags": fl})).collect())
    }
}
fn rf<R: Round, const B: Word>(r: Approximation<FBig<R, B>, Rounding>) -> (Value, Option<&'static str>) {
    match r {
        Approximation::Exact(v) => (enc_repr(v.repr()), Some("Exact")),
        Approximation::Inexact(v, e) => (enc_repr(v.repr()), Some(flag_name(Some(e)))),
    }
}
fn vf<R: Round, const B: Word>(v: &FBig<R, B>) -> (Value, Option<&'static str>) {
    (enc_repr(v.repr()), None)
}

macro_rules! bin_forms {
    ($g:expr, $fa:expr, $fb:expr, $op:tt, $opa:tt) => {{
        let (fa, fb) = (&$fa, &$fb);
        $g.add("vv", guarded(|| vf(&(fa.clone() $op fb.clone()))));
        $g.add("rv", guarded(|| vf(&(fa $op fb.clone()))));
        $g.add("vr", guarded(|| vf(&(fa.clone() $op fb))));
        $g.add("rr", guarded(|| vf(&(fa $op fb))));
        $g.add("av", guarded(|| { let mut x = fa.clone(); x $opa fb.clone(); vf(&x) }));
        $g.add("ar", guarded(|| { let mut x = fa.clone(); x $opa fb; vf(&x) }));
    }};
}

/// forms with a primitive / UBig / IBig operand: the library converts it with FBig::from (precision = its digits), so
/// they compute at the case precision exactly when the FBig operand they replace carried just its own digits
macro_rules! prim_forms {
    ($g:expr, $fa:expr, $fb:expr, $a:expr, $b:expr, $pa:expr, $pb:expr, $da:expr, $db:expr, $op:tt, $opa:tt) => {{
        let (fa, fb) = (&$fa, &$fb);
        if $b.exponent() == 0 && $pb == $db {
            if let Ok(k) = i64::try_from($b.significand()) {
                $g.add("f*i64", guarded(|| vf(&(fa $op k))));
                $g.add("f*i64:v", guarded(|| vf(&(fa.clone() $op k))));
                $g.add("f*=i64", guarded(|| { let mut x = fa.clone(); x $opa k; vf(&x) }));
                if let Ok(k8) = u8::try_from(k) {
                    $g.add("f*u8", guarded(|| vf(&(fa $op k8))));
                }
                let kb = $b.significand().clone();
                $g.add("f*ibig", guarded(|| vf(&(fa $op kb.clone()))));
                $g.add("f*&ibig", guarded(|| vf(&(fa $op &kb))));
                if k >= 0 {
                    let ku = UBig::try_from(kb.clone()).unwrap();
                    $g.add("f*ubig", guarded(|| vf(&(fa.clone() $op ku.clone()))));
                }
            }
        }
        if $a.exponent() == 0 && $pa == $da {
            if let Ok(k) = i64::try_from($a.significand()) {
                $g.add("i64*f", guarded(|| vf(&(k $op fb))));
                $g.add("i64*f:v", guarded(|| vf(&(k $op fb.clone()))));
                $g.add("&i64*f", guarded(|| vf(&(&k $op fb))));
                if let Ok(k8) = u8::try_from(k) {
                    $g.add("u8*f", guarded(|| vf(&(k8 $op fb))));
                }
                if let Ok(k32) = i32::try_from(k) {
                    $g.add("i32*f:v", guarded(|| vf(&(k32 $op fb.clone()))));
                }
                let kb = $a.significand().clone();
                $g.add("ibig*f", guarded(|| vf(&(kb.clone() $op fb))));
                $g.add("&ibig*f:v", guarded(|| vf(&(&kb $op fb.clone()))));
                if k >= 0 {
                    let ku = UBig::try_from(kb.clone()).unwrap();
                    $g.add("ubig*f", guarded(|| vf(&(ku.clone() $op fb))));
                }
            }
        }
    }};
}

// ------------------------------------------------------------------ one case, every form
fn run_case<R: Round, const B: Word>(log: &mut Log, c: &Value, src: &str) {
    let op = c["op"].as_str().unwrap();
    let unary = matches!(op, "sqr" | "cubic" | "inv" | "sqrt");
    let a: Repr<B> = dec_repr2::<B>(&c["a"]);
    let b: Repr<B> = if unary { Repr::<B>::one() } else { dec_repr2::<B>(&c["b"]) };
    // operands must fit the precisions: FBig::from_repr asserts it
    let (da, db) = (a.digits().max(1), if unary { 1 } else { b.digits().max(1) });
    let prec0 = c["prec"].as_u64().unwrap_or(1) as usize;
    let mut pa = c["pa"].as_u64().map(|x| x as usize).unwrap_or(prec0).max(da);
    let mut pb = c["pb"].as_u64().map(|x| x as usize).unwrap_or(prec0).max(db);
    if unary {
        pa = pa.max(prec0);
        pb = pa;
    } else if pa.max(pb) < prec0 {
        pa = prec0;
    }
    let prec = if unary { pa } else { pa.max(pb) };
    let ctx = Context::<R>::new(prec);
    let fa = FBig::<R, B>::from_repr(a.clone(), Context::<R>::new(pa));
    let fb = FBig::<R, B>::from_repr(b.clone(), Context::<R>::new(pb));
    let mut g = Groups::new();
    let ctx_res: Result<(Value, Option<&'static str>), String>;
    match op {
        "add" => {
            ctx_res = guarded(|| rf(ctx.add(&a, &b)));
            bin_forms!(g, fa, fb, +, +=);
            prim_forms!(g, fa, fb, a, b, pa, pb, da, db, +, +=);
        }
        "sub" => {
            ctx_res = guarded(|| rf(ctx.sub(&a, &b)));
            bin_forms!(g, fa, fb, -, -=);
            prim_forms!(g, fa, fb, a, b, pa, pb, da, db, -, -=);
        }
        "mul" => {
            ctx_res = guarded(|| rf(ctx.mul(&a, &b)));
            bin_forms!(g, fa, fb, *, *=);
            prim_forms!(g, fa, fb, a, b, pa, pb, da, db, *, *=);
        }
        "div" => {
            ctx_res = guarded(|| rf(ctx.div(&a, &b)));
            bin_forms!(g, fa, fb, /, /=);
            prim_forms!(g, fa, fb, a, b, pa, pb, da, db, /, /=);
        }
        "sqr" => {
            ctx_res = guarded(|| rf(ctx.sqr(&a)));
            g.add("m", guarded(|| vf(&fa.sqr())));
            g.add("mulrr", guarded(|| vf(&(&fa * &fa))));
            g.add("mulvv", guarded(|| vf(&(fa.clone() * fa.clone()))));
        }
        "cubic" => {
            ctx_res = guarded(|| rf(ctx.cubic(&a)));
            g.add("m", guarded(|| vf(&fa.cubic())));
        }
        "inv" => {
            ctx_res = guarded(|| rf(ctx.inv(&a)));
            g.add("inv_v", guarded(|| vf(&fa.clone().inv())));
            g.add("inv_r", guarded(|| vf(&(&fa).inv())));
            g.add("one/", guarded(|| vf(&(FBig::<R, B>::ONE / &fa))));
        }
        "sqrt" => {
            ctx_res = guarded(|| rf(ctx.sqrt(&a)));
            g.add("m", guarded(|| vf(&fa.sqrt())));
        }
        other => panic!("unknown op {}", other),
    }
    // equality with the algorithm-layer prediction: DRIFT only
    let mut drift = Value::Null;
    if c.get("pred").map(|p| p.is_object()).unwrap_or(false) {
        if let Ok((v, f)) = &ctx_res {
            let p = &c["pred"];
            let same = dec_int(&v["sig"]) == dec_int(&p["sig"])
                && v["exp"].as_i64() == p["exp"].as_i64()
                && f.map(|s| s.to_string()) == p["flag"].as_str().map(|s| s.to_string());
            drift = json!(!same);
        }
    }
    g.add("ctx", ctx_res);
    let mut ev = json!({"prop": "C03", "op": op, "base": B as u64, "mode": c["mode"], "prec": prec, "pa": pa, "pb": pb,
        "a": enc_repr(&a), "src": src, "outs": g.to_json()});
    if !unary {
        ev["b"] = enc_repr(&b);
    }
    for k in ["branch", "class", "pred", "known", "id", "kind"] {
        if let Some(v) = c.get(k) {
            ev[k] = v.clone();
        }
    }
    if !drift.is_null() {
        ev["drift"] = drift;
    }
    log.ev(ev);
}

fn dispatch(log: &mut Log, c: &Value, src: &str) {
    let mode = c["mode"].as_str().unwrap().to_string();
    let base = c["base"].as_u64().unwrap();
    dispatch_mode!(mode.as_str(), R => dispatch_base!(base, B => run_case::<R, B>(log, c, src)));
}

// ------------------------------------------------------------------ random operands
/// magnitude with exactly `digits` base-`base` digits and a non-zero last digit (normalised), by pattern
fn rand_mag(rng: &mut Rng, base: u64, digits: usize, pat: u64) -> UBig {
    let bb = UBig::from(base);
    let mut acc = UBig::ZERO;
    for i in 0..digits {
        let first = i == 0;
        let last = i + 1 == digits;
        let mut d = match pat % 6 {
            0 | 1 => rng.below(base),                                  // dense random
            2 => base - 1,                                             // all digits maximal
            3 => if first || last { 1 } else { 0 },                    // 1 0 ... 0 1
            4 => if first { 1 + rng.below(base - 1) } else if i < 3 { rng.below(base) } else if last { 1 } else { 0 },
            _ => if rng.below(4) == 0 { rng.below(base) } else { base / 2 }, // around the half digit
        };
        if (first || last) && d == 0 {
            d = 1 + rng.below(base - 1);
        }
        acc = acc * &bb + UBig::from(d);
    }
    acc
}
fn rand_signed(rng: &mut Rng, base: u64, digits: usize, pat: u64) -> IBig {
    let m = rand_mag(rng, base, digits, pat);
    signed(rng, m)
}
fn signed(rng: &mut Rng, m: UBig) -> IBig {
    if rng.coin() {
        -IBig::from(m)
    } else {
        IBig::from(m)
    }
}
fn enc_case_repr(sig: &IBig, exp: i64) -> Value {
    json!({"sig": enc_i(sig), "exp": exp, "inf": 0})
}
fn pow_base(base: u64, k: usize) -> IBig {
    IBig::from(UBig::from(base).pow(k))
}

fn random_case(rng: &mut Rng, max_prec: usize, max_gap: i64) -> Value {
    let base = *rng.pick(&[2u64, 3, 10, 16, 36, 2, 10]);
    let mode = *rng.pick(MODES);
    // precisions: small ones dominate, the tail reaches max_prec
    let mut prec = match rng.below(10) {
        0..=3 => 1 + rng.below(6) as usize,
        4..=7 => 1 + rng.below(24.min(max_prec as u64)) as usize,
        _ => 1 + rng.below(max_prec as u64) as usize,
    };
    // precisions at which the working shift of a short operand is a whole number of machine words (or double words):
    // 64 k / log2(B) + 0..2 digits - where a power of the base is exactly 2^64, 2^128, 2^192
    if base.is_power_of_two() && rng.below(4) == 0 {
        let g = base.trailing_zeros() as usize;
        prec = 64 * (1 + rng.below(3) as usize) / g + rng.below(3) as usize;
    }
    let op = *rng.pick(&["add", "add", "add", "sub", "sub", "sub", "mul", "mul", "div", "div", "div", "sqr", "cubic", "inv", "sqrt", "sqrt"]);
    let pick_digits = |rng: &mut Rng| -> usize {
        match rng.below(4) {
            0 => 1 + rng.below(prec as u64) as usize,
            1 => 1,
            _ => prec,
        }
    };
    let da = pick_digits(rng);
    let pat = rng.next();
    let mut asig = rand_signed(rng, base, da, pat);
    let mut aexp = rng.range(-40, 40);
    let db = pick_digits(rng);
    let pat = rng.next();
    let mut bsig = rand_signed(rng, base, db, pat);
    let mut bexp = aexp;
    let mut kind = "plain";
    match op {
        "add" | "sub" => {
            // exponent gap classes: overlap, around the precision, around the far-apart shortcut, huge
            let gap = match rng.below(8) {
                0 => 0,
                1 | 2 => rng.range(1, prec as i64),
                3 | 4 => rng.range(prec as i64 - 1, 2 * prec as i64 + 4),
                5 => rng.range(0, 3 * prec as i64 + 6),
                6 => rng.range(2 * prec as i64, (max_gap / 4).max(2 * prec as i64 + 1)),
                _ => rng.range(max_gap / 4, max_gap.max(max_gap / 4 + 1)),
            }
            .max(0);
            bexp = if rng.coin() { aexp - gap } else { aexp + gap };
            match rng.below(10) {
                0 => {
                    // total cancellation / doubling
                    bsig = if (op == "add") == rng.coin() { -asig.clone() } else { asig.clone() };
                    bexp = aexp;
                    kind = "equal-magnitude";
                }
                1 => {
                    // cancellation to a few digits: b = -(a +- small) at the same exponent
                    let delta = IBig::from(1 + rng.below(base * base));
                    let t = if rng.coin() { &asig + &delta } else { &asig - &delta };
                    bsig = if op == "add" { -t } else { t };
                    bexp = aexp;
                    kind = "near-cancel";
                }
                2 | 3 if base % 2 == 0 => {
                    // exact tie: a has `prec` digits, b is half a unit of a's last digit (plus nothing)
                    let pt = rng.next();
                    asig = rand_signed(rng, base, prec, pt);
                    bsig = IBig::from(base / 2) * if rng.coin() { IBig::ONE } else { IBig::NEG_ONE };
                    bexp = aexp - 1;
                    if rng.below(3) == 0 {
                        // just off the tie, far below
                        let k = 1 + rng.below(prec as u64 + 3) as usize;
                        bsig = bsig * pow_base(base, k) + if rng.coin() { IBig::ONE } else { IBig::NEG_ONE };
                        bexp -= k as i64;
                        if (bsig.clone() % IBig::from(base)) == IBig::ZERO {
                            bsig += IBig::ONE;
                        }
                        kind = "near-tie";
                    } else {
                        kind = "tie";
                    }
                }
                4 => {
                    // carry into a new digit: both all-max digits, same sign
                    asig = IBig::from(rand_mag(rng, base, prec, 2));
                    bsig = IBig::from(rand_mag(rng, base, db, 2));
                    if op == "sub" {
                        bsig = -bsig;
                    }
                    kind = "carry";
                }
                _ => {}
            }
        }
        "mul" => {
            bexp = rng.range(-40, 40);
        }
        "div" => {
            bexp = rng.range(-40, 40);
            match rng.below(6) {
                0 => {
                    // exact quotient: a = q * b with a short q, if it still fits
                    let qd = 1 + rng.below(2) as usize;
                    let q = rand_mag(rng, base, qd, 0);
                    let bm = rand_mag(rng, base, (prec / 2).max(1), 0);
                    let am = &q * &bm;
                    asig = signed(rng, am);
                    bsig = signed(rng, bm);
                    kind = "exact-quotient";
                }
                1 if base % 2 == 0 => {
                    // quotient ending in exactly one half: odd / 2
                    bsig = IBig::from(2) * if rng.coin() { IBig::ONE } else { IBig::NEG_ONE };
                    if base == 2 {
                        bsig = IBig::from(3);
                    }
                    kind = "half-quotient";
                }
                2 => {
                    bsig = IBig::ONE;
                    kind = "unit-divisor";
                }
                3 => {
                    // a divisor whose significand sits just above a machine-word boundary (2^(64k) + small): its top word is
                    // tiny, so a remainder of at least half the divisor still has one word fewer - length-based shortcuts of
                    // the half-way test (round_ratio) decide wrongly exactly here; the dividend is short
                    let k = 1 + rng.below(2) as usize;
                    let lim = if rng.coin() { 9 } else { 1 << 30 };
                    let mut bm = (UBig::ONE << (64 * k)) + UBig::from(1 + rng.below(lim));
                    if (&bm % UBig::from(base)).is_zero() {
                        bm += UBig::ONE;
                    }
                    bsig = signed(rng, bm);
                    asig = IBig::from(1 + rng.below(100000) as i64) * if rng.coin() { IBig::ONE } else { IBig::NEG_ONE };
                    if (asig.clone() % IBig::from(base)).is_zero() {
                        asig += IBig::ONE;
                    }
                    kind = "word-edge-divisor";
                }
                _ => {}
            }
        }
        "sqrt" => {
            let pt = rng.next();
            asig = IBig::from(rand_mag(rng, base, da, pt));
            match rng.below(5) {
                0 => {
                    // perfect square
                    let r = rand_mag(rng, base, (prec / 2).max(1), 0);
                    asig = IBig::from(&r * &r);
                    kind = "perfect-square";
                }
                1 if base % 2 == 0 => {
                    // square of k + 1/2 (a tie of the root): (2k+1)^2 * B^-2 * (B/2)^2
                    let k = rand_mag(rng, base, ((prec + 1) / 2).max(1), 0);
                    let t = (UBig::from(2u8) * k + UBig::ONE) * UBig::from(base / 2);
                    asig = IBig::from(&t * &t);
                    aexp = 2 * rng.range(-10, 10) - 2;
                    kind = "half-root";
                }
                2 => {
                    // digit-count / exponent parity classes of the scaling
                    aexp = rng.range(-7, 7);
                    kind = "parity";
                }
                _ => {}
            }
        }
        _ => {}
    }
    let zero_a = rng.below(60) == 0 && op != "inv";
    let zero_b = rng.below(60) == 0 && matches!(op, "add" | "sub" | "mul");
    if zero_a {
        asig = IBig::ZERO;
        aexp = 0;
        kind = "zero-operand";
    }
    if zero_b {
        bsig = IBig::ZERO;
        bexp = 0;
        kind = "zero-operand";
    }
    // a small integer operand (exponent 0): the forms with a primitive / big-integer operand apply
    if matches!(op, "add" | "sub" | "mul" | "div") && rng.below(8) == 0 {
        let lim = if rng.coin() { 9 } else { 99999 };
        let k = IBig::from(1 + rng.below(lim) as i64) * if rng.coin() { IBig::ONE } else { IBig::NEG_ONE };
        if rng.coin() {
            asig = k;
            aexp = 0;
        } else {
            bsig = k;
            bexp = 0;
        }
        kind = "int-operand";
    }
    if matches!(op, "div") && bsig.is_zero() {
        bsig = IBig::ONE;
    }
    json!({"op": op, "base": base, "mode": mode, "prec": prec, "kind": kind,
        "a": enc_case_repr(&asig, aexp), "b": enc_case_repr(&bsig, bexp)})
}

/// operands may carry more digits than the drawn precision after the special constructions: the case
/// precision is raised so that both operands fit (the property quantifies over fitting operands only);
/// then the operand precisions of the FBig forms are chosen: equal, or one operand with just its own digits
fn fit_precision(c: &mut Value, variant: u64) {
    let base = c["base"].as_u64().unwrap();
    let digits = |v: &Value| -> usize {
        let s = dec_int(&v["sig"]);
        dispatch_base!(base, B => Repr::<B>::new(s, 0).digits().max(1))
    };
    let unary = matches!(c["op"].as_str().unwrap(), "sqr" | "cubic" | "inv" | "sqrt");
    let (da, db) = (digits(&c["a"]), if unary { 1 } else { digits(&c["b"]) });
    let prec = (c["prec"].as_u64().unwrap() as usize).max(da).max(db);
    c["prec"] = json!(prec);
    c["pa"] = json!(if variant == 1 && !unary { da } else { prec });
    c["pb"] = json!(if variant == 2 && !unary { db } else { prec });
}

fn main() {
    let args = &start();
    let mut log = Log::create(&args.out);
    let mut rng = Rng::new(args.seed);
    let mut max_prec = 60usize;
    let mut max_gap = 400i64;
    let mut i = 0;
    while i < args.extra.len() {
        match args.extra[i].as_str() {
            "--max-prec" => {
                max_prec = args.extra[i + 1].parse().unwrap();
                i += 1
            }
            "--max-gap" => {
                max_gap = args.extra[i + 1].parse().unwrap();
                i += 1
            }
            _ => {}
        }
        i += 1;
    }
    if let Some(path) = &args.cases {
        for c in read_cases(path) {
            let src = c["src"].as_str().unwrap_or("gen").to_string();
            dispatch(&mut log, &c, &src);
        }
    }
    for _ in 0..args.n {
        let mut c = random_case(&mut rng, max_prec, max_gap);
        let variant = rng.below(3);
        fit_precision(&mut c, variant);
        dispatch(&mut log, &c, "rnd");
    }
    let n = log.finish();
    eprintln!("c03: {} events", n);
}
