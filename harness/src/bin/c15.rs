//! C15: call forms of float, rational and modular operators (the integer forms are produced by
//! the c01 / c02 / c09 drivers), and the clone / clone_from independence machine.
//!
//! Form events:   {fam, op, ..., outs: [{forms, out}]}                (agreement only)
//! Clone machine: {fam: "clone", op, dst, src, k, regs: [int; NREG]}   (state after the step)
use dashu_base::SquareRoot as _;
use dashu_base::{DivEuclid, DivRemEuclid, Inverse, RemEuclid};
use dashu_float::{Context, FBig, Repr};
use dashu_int::fast_div::ConstDivisor;
use dashu_int::{IBig, UBig, Word};
use dashu_ratio::{RBig, Relaxed};
use dashu_verif_harness::common::*;
use dashu_verif_harness::forms::*;
use dashu_verif_harness::fwire::*;
use dashu_verif_harness::{dispatch_base, dispatch_mode, forms_assign, forms_binop};
use serde_json::{json, Value};

// ------------------------------------------------------------------------------------ floats
fn fval<R: dashu_float::round::Round, const B: Word>(f: &FBig<R, B>) -> Value {
    enc_repr(f.repr())
}
fn float_case<R: dashu_float::round::Round, const B: Word>(log: &mut Log, mode: &str, op: &str, a: &Repr<B>, b: &Repr<B>, prec: usize, prec_b: usize, n: isize) {
    // the operators work at the larger of the two operand precisions; the Context form is called at that precision
    let ctx = Context::<R>::new(prec.max(prec_b));
    let x: FBig<R, B> = FBig::from_repr(a.clone(), Context::<R>::new(prec));
    let y: FBig<R, B> = FBig::from_repr(b.clone(), Context::<R>::new(prec_b));
    let mut outs = Outs::new();
    macro_rules! bin {
        ($op:tt, $opa:tt, $m:ident) => {{
            forms_binop!(outs, "", x, y, $op, fval);
            forms_assign!(outs, "", x, y, $opa, fval);
            outs.push("ctx", guarded(|| fval(&ctx.$m(x.repr(), y.repr()).value())));
        }};
    }
    // the iterator forms (float/src/iter.rs): Sum / Product fold from ZERO / ONE with the operators
    macro_rules! fold {
        ($f:ident) => {{
            outs.push(concat!(stringify!($f), ":v"), guarded(|| fval(&vec![x.clone(), y.clone()].into_iter().$f::<FBig<R, B>>())));
            outs.push(concat!(stringify!($f), ":r"), guarded(|| fval(&[x.clone(), y.clone()].iter().$f::<FBig<R, B>>())));
        }};
    }
    match op {
        "add" => {
            bin!(+, +=, add);
            fold!(sum);
        }
        "sub" => bin!(-, -=, sub),
        "mul" => {
            bin!(*, *=, mul);
            fold!(product);
        }
        "div" => bin!(/, /=, div),
        "sqr" => {
            outs.push("m", guarded(|| fval(&x.sqr())));
            outs.push("ctx", guarded(|| fval(&Context::<R>::new(prec).sqr(x.repr()).value())));
        }
        "cubic" => {
            outs.push("m", guarded(|| fval(&x.cubic())));
            outs.push("ctx", guarded(|| fval(&Context::<R>::new(prec).cubic(x.repr()).value())));
        }
        "inv" => {
            outs.push("v", guarded(|| fval(&x.clone().inv())));
            outs.push("r", guarded(|| fval(&(&x).inv())));
            outs.push("ctx", guarded(|| fval(&Context::<R>::new(prec).inv(x.repr()).value())));
        }
        // the transcendental and power methods: the binary one works at the larger operand precision like the operators
        "powf" => {
            outs.push("m", guarded(|| fval(&x.powf(&y))));
            outs.push("ctx", guarded(|| fval(&ctx.powf(x.repr(), y.repr()).value())));
        }
        "powi" => {
            let k = IBig::from(n / 8);
            outs.push("m", guarded(|| fval(&x.powi(k.clone()))));
            outs.push("ctx", guarded(|| fval(&Context::<R>::new(prec).powi(x.repr(), k.clone()).value())));
        }
        "sqrt" => {
            outs.push("m", guarded(|| fval(&x.sqrt())));
            outs.push("ctx", guarded(|| fval(&Context::<R>::new(prec).sqrt(x.repr()).value())));
        }
        "exp" => {
            outs.push("m", guarded(|| fval(&x.exp())));
            outs.push("ctx", guarded(|| fval(&Context::<R>::new(prec).exp(x.repr()).value())));
        }
        "exp_m1" => {
            outs.push("m", guarded(|| fval(&x.exp_m1())));
            outs.push("ctx", guarded(|| fval(&Context::<R>::new(prec).exp_m1(x.repr()).value())));
        }
        "ln" => {
            outs.push("m", guarded(|| fval(&x.ln())));
            outs.push("ctx", guarded(|| fval(&Context::<R>::new(prec).ln(x.repr()).value())));
        }
        "ln_1p" => {
            outs.push("m", guarded(|| fval(&x.ln_1p())));
            outs.push("ctx", guarded(|| fval(&Context::<R>::new(prec).ln_1p(x.repr()).value())));
        }
        "neg" => {
            outs.push("v", guarded(|| fval(&(-x.clone()))));
            outs.push("r", guarded(|| fval(&(-&x))));
        }
        "shl" => {
            outs.push("v", guarded(|| fval(&(x.clone() << n))));
            outs.push("a", guarded(|| { let mut t = x.clone(); t <<= n; fval(&t) }));
            outs.push("shr-neg", guarded(|| fval(&(x.clone() >> -n))));
        }
        "shr" => {
            outs.push("v", guarded(|| fval(&(x.clone() >> n))));
            outs.push("a", guarded(|| { let mut t = x.clone(); t >>= n; fval(&t) }));
            outs.push("shl-neg", guarded(|| fval(&(x.clone() << -n))));
        }
        // the remainder operator against the Context method, and the three Euclidean traits in every ownership form
        // (quotient only, remainder only, both: encoded like the rational Euclidean forms)
        "rem" => {
            forms_binop!(outs, "", x, y, %, fval);
            forms_assign!(outs, "", x, y, %=, fval);
            outs.push("ctx", guarded(|| fval(&ctx.rem(x.repr(), y.repr()).value())));
        }
        "euclid" => {
            use dashu_base::{DivEuclid, DivRemEuclid, RemEuclid};
            let q = |v: &IBig| json!({"conv": "E", "hq": 1, "hr": 0, "q": enc_i(v), "r": json!(0)});
            let r = |v: &FBig<R, B>| json!({"conv": "E", "hq": 0, "hr": 1, "q": json!(0), "r": fval(v)});
            let qr = |a: &IBig, b: &FBig<R, B>| json!({"conv": "E", "hq": 1, "hr": 1, "q": enc_i(a), "r": fval(b)});
            outs.push("E.q:vv", guarded(|| q(&x.clone().div_euclid(y.clone()))));
            outs.push("E.q:rv", guarded(|| q(&(&x).div_euclid(y.clone()))));
            outs.push("E.q:vr", guarded(|| q(&x.clone().div_euclid(&y))));
            outs.push("E.q:rr", guarded(|| q(&(&x).div_euclid(&y))));
            outs.push("E.r:vv", guarded(|| r(&x.clone().rem_euclid(y.clone()))));
            outs.push("E.r:rv", guarded(|| r(&(&x).rem_euclid(y.clone()))));
            outs.push("E.r:vr", guarded(|| r(&x.clone().rem_euclid(&y))));
            outs.push("E.r:rr", guarded(|| r(&(&x).rem_euclid(&y))));
            outs.push("E.qr:vv", guarded(|| { let (a, b) = x.clone().div_rem_euclid(y.clone()); qr(&a, &b) }));
            outs.push("E.qr:rv", guarded(|| { let (a, b) = (&x).div_rem_euclid(y.clone()); qr(&a, &b) }));
            outs.push("E.qr:vr", guarded(|| { let (a, b) = x.clone().div_rem_euclid(&y); qr(&a, &b) }));
            outs.push("E.qr:rr", guarded(|| { let (a, b) = (&x).div_rem_euclid(&y); qr(&a, &b) }));
        }
        _ => panic!("float op {}", op),
    }
    log.ev(json!({"prop": "C15", "fam": "float", "op": op, "base": B, "mode": mode, "prec": prec, "prec_b": prec_b, "n": n as i64,
        "a": enc_repr(a), "b": enc_repr(b), "outs": outs.grouped()}));
}
fn random_sig(rng: &mut Rng, base: u64, digits: usize) -> IBig {
    // a significand with at most `digits` digits in `base`, built digit by digit with * and +
    let mut v = UBig::ZERO;
    let nd = 1 + rng.below(digits as u64) as usize;
    for _ in 0..nd {
        v = v * (base as u8) + (rng.below(base) as u8);
    }
    IBig::from_parts(if rng.coin() { dashu_int::Sign::Negative } else { dashu_int::Sign::Positive }, v)
}
fn float_random(log: &mut Log, rng: &mut Rng) {
    let base = *rng.pick(&[2u64, 10, 16, 3]);
    let mode = *rng.pick(MODES);
    let prec = 1 + rng.below(30) as usize;
    let op = *rng.pick(&["add", "sub", "mul", "div", "sqr", "cubic", "inv", "neg", "shl", "shr", "add", "sub",
                         "powf", "powf", "powi", "sqrt", "exp", "exp_m1", "ln", "ln_1p", "rem", "euclid", "euclid"]);
    let transcendental = matches!(op, "powf" | "powi" | "sqrt" | "exp" | "exp_m1" | "ln" | "ln_1p");
    // half of the time the right operand has its own (larger or smaller) precision
    let prec_b = if rng.coin() { prec } else { 1 + rng.below(30) as usize };
    let sa = random_sig(rng, base, prec);
    let mut sb = random_sig(rng, base, prec_b);
    if (matches!(op, "div" | "rem" | "euclid") && sb == IBig::ZERO && rng.below(4) != 0) || rng.below(16) == 0 {
        sb = IBig::ONE;
    }
    let sa = if op == "inv" && sa == IBig::ZERO { IBig::ONE } else { sa };
    // an exactly zero operand now and then (zero has its own branch in most operators; 0 with a non-zero exponent would be
    // the encoding of an infinity)
    let sa = if op != "inv" && rng.below(12) == 0 { IBig::ZERO } else { sa };
    // moderate magnitudes for the series-based methods (their cost grows with the magnitude); a positive base for
    // powf / ln / sqrt most of the time (a negative one must panic in every form alike)
    let sa = if transcendental && rng.below(8) != 0 { IBig::from(UBig::try_from(if sa < IBig::ZERO { -sa } else { sa }).unwrap()) } else { sa };
    let ea = if transcendental { -(rng.below(prec as u64 + 3) as isize) + rng.range(-2, 3) as isize } else { rng.range(-40, 40) as isize };
    let eb = if transcendental { -(rng.below(prec_b as u64 + 2) as isize) } else { ea + rng.range(-(prec as i64) - 3, prec as i64 + 3) as isize };
    let n = rng.range(-70, 70) as isize;
    dispatch_base!(base, B => dispatch_mode!(mode, R => {
        float_case::<R, B>(log, mode, op, &Repr::<B>::new(sa, ea), &Repr::<B>::new(sb, eb), prec, prec_b, n)
    }));
}

// ------------------------------------------------------------------------------------ rationals
fn small_int(rng: &mut Rng, max_words: usize) -> IBig {
    if rng.coin() { IBig::from(rng.range(-50, 50)) } else { random_ibig(rng, max_words) }
}
fn ratio_random(log: &mut Log, rng: &mut Rng, max_words: usize) {
    let op = *rng.pick(&["add", "sub", "mul", "div", "rem", "euclid", "euclid"]);
    let an = small_int(rng, max_words);
    let mut ad = random_ubig(rng, max_words);
    if ad == UBig::ZERO { ad = UBig::ONE; }
    let bn = small_int(rng, max_words);
    let mut bd = random_ubig(rng, max_words);
    if bd == UBig::ZERO || rng.coin() { bd = UBig::ONE; }
    // denominators that share a factor (the reduction by gcd(b, d) is a code path of its own)
    if rng.below(3) == 0 {
        let g = UBig::from(2u8 + rng.below(30) as u8);
        ad = ad * &g;
        bd = bd * &g;
    }
    let bn = if (op == "div" || op == "rem" || op == "euclid") && bn == IBig::ZERO && rng.below(4) != 0 { IBig::ONE } else { bn };
    let relaxed = rng.coin();
    let mut outs = Outs::new();
    macro_rules! fam {
        ($T:ty, $enc:expr) => {{
            let x = <$T>::from_parts(an.clone(), ad.clone());
            let y = <$T>::from_parts(bn.clone(), bd.clone());
            macro_rules! bin {
                ($op:tt, $opa:tt) => {{
                    forms_binop!(outs, "", x, y, $op, $enc);
                    forms_assign!(outs, "", x, y, $opa, $enc);
                    if bd == UBig::ONE {
                        // integer right operand in its own type
                        let k = bn.clone();
                        forms_binop!(outs, "I:", x, k, $op, $enc);
                        if bn >= IBig::ZERO {
                            let u: UBig = ubig_from_bytes(&words_to_bytes(bn.as_sign_words().1));
                            forms_binop!(outs, "U:", x, u, $op, $enc);
                        }
                    }
                    if ad == UBig::ONE {
                        let k = an.clone();
                        forms_binop!(outs, "I~:", k, y, $op, $enc);
                    }
                }};
            }
            match op {
                "add" => bin!(+, +=),
                "sub" => bin!(-, -=),
                "mul" => bin!(*, *=),
                "div" => bin!(/, /=),
                "rem" => {
                    forms_binop!(outs, "", x, y, %, $enc);
                    forms_assign!(outs, "", x, y, %=, $enc);
                }
                _ => {
                    // Euclidean forms: quotient only, remainder only, both; encoded like the integer division forms
                    let q = |v: &IBig| json!({"conv": "E", "hq": 1, "hr": 0, "q": enc_i(v), "r": json!(0)});
                    let r = |v: &$T| json!({"conv": "E", "hq": 0, "hr": 1, "q": json!(0), "r": $enc(v)});
                    let qr = |a: &IBig, b: &$T| json!({"conv": "E", "hq": 1, "hr": 1, "q": enc_i(a), "r": $enc(b)});
                    outs.push("E.q:vv", guarded(|| q(&x.clone().div_euclid(y.clone()))));
                    outs.push("E.q:rv", guarded(|| q(&(&x).div_euclid(y.clone()))));
                    outs.push("E.q:vr", guarded(|| q(&x.clone().div_euclid(&y))));
                    outs.push("E.q:rr", guarded(|| q(&(&x).div_euclid(&y))));
                    outs.push("E.r:vv", guarded(|| r(&x.clone().rem_euclid(y.clone()))));
                    outs.push("E.r:rv", guarded(|| r(&(&x).rem_euclid(y.clone()))));
                    outs.push("E.r:vr", guarded(|| r(&x.clone().rem_euclid(&y))));
                    outs.push("E.r:rr", guarded(|| r(&(&x).rem_euclid(&y))));
                    outs.push("E.qr:vv", guarded(|| { let (a, b) = x.clone().div_rem_euclid(y.clone()); qr(&a, &b) }));
                    outs.push("E.qr:rv", guarded(|| { let (a, b) = (&x).div_rem_euclid(y.clone()); qr(&a, &b) }));
                    outs.push("E.qr:vr", guarded(|| { let (a, b) = x.clone().div_rem_euclid(&y); qr(&a, &b) }));
                    outs.push("E.qr:rr", guarded(|| { let (a, b) = (&x).div_rem_euclid(&y); qr(&a, &b) }));
                }
            }
        }};
    }
    if relaxed { fam!(Relaxed, enc_rx) } else { fam!(RBig, enc_r) }
    log.ev(json!({"prop": "C15", "fam": if relaxed { "relaxed" } else { "rbig" }, "op": op,
        "a": {"num": enc_i(&an), "den": enc_u(&ad)}, "b": {"num": enc_i(&bn), "den": enc_u(&bd)}, "outs": outs.grouped()}));
}

// ------------------------------------------------------------------------------------ modular
fn modular_random(log: &mut Log, rng: &mut Rng, max_words: usize) {
    let mut m = random_ubig(rng, max_words);
    if m == UBig::ZERO { m = UBig::from(7u8); }
    let ring = ConstDivisor::new(m.clone());
    let a = random_ibig(rng, max_words + 1);
    let b = if rng.below(4) == 0 { a.clone() } else { random_ibig(rng, max_words + 1) };
    let op = *rng.pick(&["add", "sub", "mul", "div"]);
    let x = ring.reduce(a.clone());
    let y = ring.reduce(b.clone());
    let enc = |r: &dashu_int::modular::Reduced| enc_u(&r.residue());
    let mut outs = Outs::new();
    macro_rules! bin {
        ($op:tt, $opa:tt) => {{
            forms_binop!(outs, "", x, y, $op, enc);
            forms_assign!(outs, "", x, y, $opa, enc);
        }};
    }
    match op {
        "add" => bin!(+, +=),
        "sub" => bin!(-, -=),
        "mul" => bin!(*, *=),
        _ => bin!(/, /=),
    }
    if a == b {
        // the same element twice: the dedicated methods are further forms of the same operation
        match op {
            "mul" => outs.push("sqr", guarded(|| enc(&x.sqr()))),
            "add" => outs.push("dbl", guarded(|| enc(&x.clone().dbl()))),
            _ => {}
        }
    }
    log.ev(json!({"prop": "C15", "fam": "mod", "op": op, "m": enc_u(&m), "a": enc_i(&a), "b": enc_i(&b), "outs": outs.grouped()}));
}

// ------------------------------------------------------------------------------------ clone machine
const NREG: usize = 4;
fn clone_machine(log: &mut Log, rng: &mut Rng, steps: u64) {
    // many near-equal word counts: clone_from reuses the destination buffer only when its capacity fits the source
    let sizes = [0usize, 1, 2, 2, 3, 3, 3, 4, 4, 4, 5, 5, 6, 6, 7, 8, 9, 10, 11, 12, 17, 40];
    let mut regs: Vec<IBig> = (0..NREG).map(|_| IBig::ZERO).collect();
    let snapshot = |regs: &Vec<IBig>| Value::Array(regs.iter().map(enc_i).collect());
    log.ev(json!({"prop": "C15", "fam": "clone", "op": "init", "dst": 1, "src": 1, "k": 0, "v": enc_i(&IBig::ZERO), "regs": snapshot(&regs)}));
    for _ in 0..steps {
        let dst = rng.below(NREG as u64) as usize;
        let src = rng.below(NREG as u64) as usize;
        let k = 1 + rng.below(200) as usize;
        let kind = rng.below(12);
        let mut v = IBig::ZERO;
        let step = guarded(|| match kind {
            0 | 1 => {
                let nbytes = 8 * *rng.pick(&sizes);
                let pat = rng.next();
                v = ibig_from_parts(rng.coin(), &pattern_bytes(rng, nbytes, pat));
                regs[dst] = v.clone();
                "set"
            }
            2 | 3 => {
                regs[dst] = regs[src].clone();
                "clone"
            }
            4 | 5 | 6 => {
                // ONE clone_from per step (a second one onto the already overwritten destination would repair
                // what the first got wrong): from a temporary copy, or straight from the other register
                if dst == src || rng.coin() {
                    let s = regs[src].clone();
                    regs[dst].clone_from(&s);
                } else {
                    let (a, b) = if dst < src { let (l, r) = regs.split_at_mut(src); (&mut l[dst], &r[0]) } else { let (l, r) = regs.split_at_mut(dst); (&mut r[0], &l[src]) };
                    a.clone_from(b);
                }
                "clone_from"
            }
            7 => {
                regs[dst] += IBig::from(k);
                "add_k"
            }
            8 => {
                regs[dst] <<= k;
                "shl_k"
            }
            9 => {
                regs[dst] >>= k;
                "shr_k"
            }
            10 => {
                // self-assignment pattern: x op= &x.clone()
                let c = regs[dst].clone();
                regs[dst] *= &c;
                if regs[dst].as_sign_words().1.len() > 60 {
                    regs[dst] >>= 64 * 50;
                }
                "sqr_self"
            }
            _ => {
                let c = regs[dst].clone();
                regs[dst] -= &c;
                "sub_self"
            }
        });
        let op = match step {
            Ok(op) => op,
            Err(_) => "panicked",
        };
        log.ev(json!({"prop": "C15", "fam": "clone", "op": op, "dst": dst + 1, "src": src + 1, "k": k, "v": enc_i(&v), "regs": snapshot(&regs)}));
    }
}

/// The clone machine for the composite types (two big integers, or a big integer plus exponent and precision): the
/// same register discipline, values compared structurally (a clone must reproduce the representation, precision included).
fn clone_machine_g<T: Clone>(log: &mut Log, rng: &mut Rng, steps: u64, ty: &str, gen: &dyn Fn(&mut Rng) -> T, enc: &dyn Fn(&T) -> Value,
                             mutate: &dyn Fn(&mut T, &mut Rng)) {
    let mut regs: Vec<T> = (0..NREG).map(|_| gen(rng)).collect();
    let snapshot = |regs: &Vec<T>| Value::Array(regs.iter().map(|r| enc(r)).collect());
    log.ev(json!({"prop": "C15", "fam": "cloneg", "ty": ty, "op": "init", "dst": 1, "src": 1, "v": enc(&regs[0]), "regs": snapshot(&regs)}));
    for _ in 0..steps {
        let dst = rng.below(NREG as u64) as usize;
        let src = rng.below(NREG as u64) as usize;
        let kind = rng.below(10);
        let step = guarded(|| match kind {
            0 | 1 => {
                regs[dst] = gen(rng);
                "set"
            }
            2 | 3 => {
                regs[dst] = regs[src].clone();
                "clone"
            }
            4 | 5 | 6 | 7 => {
                if dst == src || rng.coin() {
                    let s = regs[src].clone();
                    regs[dst].clone_from(&s);
                } else {
                    let (a, b) = if dst < src { let (l, r) = regs.split_at_mut(src); (&mut l[dst], &r[0]) } else { let (l, r) = regs.split_at_mut(dst); (&mut r[0], &l[src]) };
                    a.clone_from(b);
                }
                "clone_from"
            }
            _ => {
                mutate(&mut regs[dst], rng);
                "mut"
            }
        });
        let op = match step {
            Ok(op) => op,
            Err(_) => "panicked",
        };
        log.ev(json!({"prop": "C15", "fam": "cloneg", "ty": ty, "op": op, "dst": dst + 1, "src": src + 1, "v": enc(&regs[dst]), "regs": snapshot(&regs)}));
    }
}
fn clone_machines_composite(log: &mut Log, rng: &mut Rng, steps: u64) {
    let sizes = [0usize, 1, 2, 2, 3, 3, 4, 4, 5, 6, 7, 9, 12, 17];
    let big = |rng: &mut Rng| -> IBig {
        let nbytes = 8 * *rng.pick(&sizes);
        let pat = rng.next();
        ibig_from_parts(rng.coin(), &pattern_bytes(rng, nbytes, pat))
    };
    let ubig1 = |rng: &mut Rng| -> UBig {
        let nbytes = 8 * *rng.pick(&sizes);
        let pat = rng.next();
        ubig_from_bytes(&pattern_bytes(rng, nbytes, pat)) + UBig::ONE
    };
    let enc_q = |n: &IBig, d: &UBig| json!({"num": enc_i(n), "den": enc_u(d)});
    clone_machine_g::<RBig>(log, rng, steps, "RBig", &|r| RBig::from_parts(big(r), ubig1(r)), &|x| enc_q(x.numerator(), x.denominator()),
        &|x, r| { if r.coin() { *x += RBig::ONE } else { *x *= RBig::from_parts(IBig::from(3), UBig::from(7u8)) } });
    clone_machine_g::<Relaxed>(log, rng, steps, "Relaxed", &|r| Relaxed::from_parts(big(r), ubig1(r)), &|x| enc_q(x.numerator(), x.denominator()),
        &|x, r| { if r.coin() { *x += Relaxed::ONE } else { *x *= Relaxed::from_parts(IBig::from(3), UBig::from(7u8)) } });
    type F2 = FBig<dashu_float::round::mode::Zero, 2>;
    type D10 = FBig<dashu_float::round::mode::HalfAway, 10>;
    clone_machine_g::<F2>(log, rng, steps, "FBig", &|r| {
            let x = F2::from_parts(big(r), r.range(-300, 300) as isize);
            if r.coin() { x } else { let p = x.precision() + r.below(200) as usize; x.with_precision(p).value() }
        }, &|x| enc_f(x), &|x, r| { if r.coin() { *x += F2::ONE } else { *x <<= 3 } });
    clone_machine_g::<D10>(log, rng, steps, "DBig", &|r| {
            let x = D10::from_parts(big(r), r.range(-40, 40) as isize);
            if r.coin() { x } else { let p = x.precision() + r.below(60) as usize; x.with_precision(p).value() }
        }, &|x| enc_f(x), &|x, r| { if r.coin() { *x += D10::ONE } else { *x *= D10::from(7) } });
}

fn main() {
    let args = &start();
    let mut log = Log::create(&args.out);
    let mut rng = Rng::new(args.seed);
    let what = args.extra.first().map(|s| s.as_str()).unwrap_or("forms");
    if what == "clone" {
        clone_machine(&mut log, &mut rng, args.n);
        clone_machines_composite(&mut log, &mut rng, args.n / 6 + 10);
    } else {
        for i in 0..args.n {
            // a library panic while building operands must not take the driver down
            let r = guarded(|| match i % 4 {
                0 | 1 => float_random(&mut log, &mut rng),
                2 => ratio_random(&mut log, &mut rng, args.max_words.min(6)),
                _ => modular_random(&mut log, &mut rng, args.max_words.min(6)),
            });
            if let Err(m) = r {
                log.ev(json!({"prop": "C15", "fam": "driver", "op": "operand-construction-panicked", "msg": m, "outs": []}));
            }
        }
    }
    let n = log.finish();
    eprintln!("c15 {}: {} events", what, n);
}
