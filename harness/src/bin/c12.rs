//! C12: gcd / gcd_ext, integer roots, ilog, log2_bounds, remove — every call form, no oracle.
//!
//! Case / event formats (an event is a case plus the observed outcomes, so it can be replayed):
//!   {"op":"gcd","a":int,"b":int}                       -> "outs" (gcd: v={g}), "ext" (gcd_ext: v={g,s,t})
//!   {"op":"root","x":int,"n":k}                        -> "outs" (v={s}), "rem" (v={s,r}; n = 2, 3 only)
//!   {"op":"ilog","x":int,"b":int}                      -> "outs" (v={e})
//!   {"op":"remove","x":int,"f":int}                    -> "outs" (v={some,k,y})
//!   {"op":"log2","kind":"int","x":int} | {"kind":"f32","bits":[hi,lo]} | {"kind":"f64","bits":[w3,w2,w1,w0]}
//!        | {"kind":"fbig","base":B,"sig":int,"exp":k} | {"kind":"rbig","num":int,"den":int}
//!                                                      -> "outs" (v={lb:[hi,lo],ub:[hi,lo]}) f32 bit patterns
//!   {"op":"prim","n":v,"partners":[..],"roots":[..],"bases":[..],"only":"all"|"log2"}   (v < 65536)
//!        or the range form {"op":"prim","lo":a,"hi":b,"step":s,"pmode":"all8"|"few","only":..}
//!                                                      -> sqrt, sqrt_rem, cbrt, cbrt_rem, nth, ilog, gcd, log2
//! Integers use {s, m}; everything in a "prim" event is a plain JSON number.
use dashu_base::{CubicRoot, CubicRootRem, EstimatedLog2, ExtendedGcd, Gcd, SquareRoot, SquareRootRem};
use dashu_float::{Context, FBig, Repr};
use dashu_int::{IBig, Sign, UBig};
use dashu_ratio::{RBig, Relaxed};
use dashu_verif_harness::common::*;
use dashu_verif_harness::forms::*;
use serde_json::{json, Value};

#[cfg(feature = "std")]
const BUILD: &str = "std";
#[cfg(not(feature = "std"))]
const BUILD: &str = "nostd";
/// debug (debug assertions + overflow checks) or release
fn profile() -> &'static str {
    if cfg!(debug_assertions) { "debug" } else { "release" }
}

// ---------------------------------------------------------------- encoding without library conversions
fn enc_u128(v: u128) -> Value {
    let mut b = v.to_le_bytes().to_vec();
    while b.last() == Some(&0) {
        b.pop();
    }
    json!({"s": 0, "m": b})
}
fn enc_i128(v: i128) -> Value {
    let mut b = v.unsigned_abs().to_le_bytes().to_vec();
    while b.last() == Some(&0) {
        b.pop();
    }
    json!({"s": if v < 0 { 1 } else { 0 }, "m": b})
}
fn enc_f32(v: f32) -> Value {
    let b = v.to_bits();
    json!([b >> 16, b & 0xffff])
}
fn enc_bounds(b: (f32, f32)) -> Value {
    json!({"lb": enc_f32(b.0), "ub": enc_f32(b.1)})
}
fn is_neg(x: &IBig) -> bool {
    x.as_sign_words().0 == Sign::Negative && !x.as_sign_words().1.is_empty()
}
fn mag(x: &IBig) -> UBig {
    ubig_from_bytes(&words_to_bytes(x.as_sign_words().1))
}
fn mag_u128(x: &IBig) -> Option<u128> {
    small_mag(&words_to_bytes(x.as_sign_words().1))
}
/// small result as a JSON number (clamped: anything absurd is still visible as a wrong value)
fn small_u(x: &UBig) -> i64 {
    let w = x.as_words();
    match w.len() {
        0 => 0,
        1 if (w[0] as u128) < (1 << 30) => w[0] as i64,
        _ => 1 << 30,
    }
}
fn small_i(x: &IBig) -> i64 {
    let (s, w) = x.as_sign_words();
    let m = match w.len() {
        0 => 0,
        1 if (w[0] as u128) < (1 << 30) => w[0] as i64,
        _ => 1 << 30,
    };
    if s == Sign::Negative {
        -m
    } else {
        m
    }
}
fn clamp_u(v: u128) -> i64 {
    if v < (1 << 30) {
        v as i64
    } else {
        1 << 30
    }
}
fn clamp_i(v: i128) -> i64 {
    if v.unsigned_abs() < (1 << 30) {
        v as i64
    } else if v < 0 {
        -(1 << 30)
    } else {
        1 << 30
    }
}

macro_rules! for_uprims {
    ($v:expr, $body:ident, $($args:tt)*) => {{
        let v: u128 = $v;
        if v <= u8::MAX as u128 { $body!(u8, v as u8, $($args)*); }
        if v <= u16::MAX as u128 { $body!(u16, v as u16, $($args)*); }
        if v <= u32::MAX as u128 { $body!(u32, v as u32, $($args)*); }
        if v <= u64::MAX as u128 { $body!(u64, v as u64, $($args)*); }
        $body!(u128, v, $($args)*);
    }};
}
macro_rules! for_uprims_usize {
    ($v:expr, $body:ident, $($args:tt)*) => {{
        let v: u128 = $v;
        for_uprims!(v, $body, $($args)*);
        if v <= usize::MAX as u128 { $body!(usize, v as usize, $($args)*); }
    }};
}
macro_rules! for_iprims {
    ($v:expr, $body:ident, $($args:tt)*) => {{
        let v: i128 = $v;
        if v >= i8::MIN as i128 && v <= i8::MAX as i128 { $body!(i8, v as i8, $($args)*); }
        if v >= i16::MIN as i128 && v <= i16::MAX as i128 { $body!(i16, v as i16, $($args)*); }
        if v >= i32::MIN as i128 && v <= i32::MAX as i128 { $body!(i32, v as i32, $($args)*); }
        if v >= i64::MIN as i128 && v <= i64::MAX as i128 { $body!(i64, v as i64, $($args)*); }
        if v >= isize::MIN as i128 && v <= isize::MAX as i128 { $body!(isize, v as isize, $($args)*); }
        $body!(i128, v, $($args)*);
    }};
}

// ---------------------------------------------------------------- gcd
fn enc_ext(r: (UBig, IBig, IBig)) -> Value {
    json!({"g": enc_u(&r.0), "s": enc_i(&r.1), "t": enc_i(&r.2)})
}
macro_rules! gcd_prim_pair {
    ($t:ty, $p:expr, $outs:expr, $ext:expr, $q:expr) => {{
        let q: u128 = $q;
        if q <= <$t>::MAX as u128 {
            let (p, q) = ($p, q as $t);
            $outs.push(stringify!($t), guarded(|| json!({"g": enc_u128(Gcd::gcd(p, q) as u128)})));
            $ext.push(stringify!($t), guarded(|| {
                let (g, s, t) = ExtendedGcd::gcd_ext(p, q);
                json!({"g": enc_u128(g as u128), "s": enc_i128(s as i128), "t": enc_i128(t as i128)})
            }));
        }
    }};
}
macro_rules! gcd_big_forms {
    ($pre:expr, $a:expr, $b:expr, $outs:expr, $ext:expr) => {{
        let (a, b) = ($a.clone(), $b.clone());
        let (a, b) = (&a, &b);
        $outs.push(concat!($pre, "vv"), guarded(|| json!({"g": enc_u(&Gcd::gcd(a.clone(), b.clone()))})));
        $outs.push(concat!($pre, "rv"), guarded(|| json!({"g": enc_u(&Gcd::gcd(a, b.clone()))})));
        $outs.push(concat!($pre, "vr"), guarded(|| json!({"g": enc_u(&Gcd::gcd(a.clone(), b))})));
        $outs.push(concat!($pre, "rr"), guarded(|| json!({"g": enc_u(&Gcd::gcd(a, b))})));
        $ext.push(concat!($pre, "vv"), guarded(|| enc_ext(ExtendedGcd::gcd_ext(a.clone(), b.clone()))));
        $ext.push(concat!($pre, "rv"), guarded(|| enc_ext(ExtendedGcd::gcd_ext(a, b.clone()))));
        $ext.push(concat!($pre, "vr"), guarded(|| enc_ext(ExtendedGcd::gcd_ext(a.clone(), b))));
        $ext.push(concat!($pre, "rr"), guarded(|| enc_ext(ExtendedGcd::gcd_ext(a, b))));
    }};
}
fn run_gcd(log: &mut Log, a: &IBig, b: &IBig, src: &str) {
    let (mut outs, mut ext) = (Outs::new(), Outs::new());
    gcd_big_forms!("II", a, b, outs, ext);
    let (ua, ub) = (mag(a), mag(b));
    if !is_neg(a) {
        gcd_big_forms!("UI", ua, b, outs, ext);
    }
    if !is_neg(b) {
        gcd_big_forms!("IU", a, ub, outs, ext);
    }
    if !is_neg(a) && !is_neg(b) {
        gcd_big_forms!("UU", ua, ub, outs, ext);
        if let (Some(p), Some(q)) = (mag_u128(a), mag_u128(b)) {
            for_uprims_usize!(p, gcd_prim_pair, outs, ext, q);
        }
    }
    log.ev(json!({"prop": "C12", "op": "gcd", "src": src, "a": enc_i(a), "b": enc_i(b),
        "outs": outs.grouped(), "ext": ext.grouped()}));
}

// ---------------------------------------------------------------- roots
macro_rules! sqrt_prim {
    ($t:ty, $p:expr, $outs:expr, $rem:expr) => {{
        let p: $t = $p;
        $outs.push(stringify!($t), guarded(|| json!({"s": enc_u128(SquareRoot::sqrt(&p) as u128)})));
        $rem.push(stringify!($t), guarded(|| {
            let (s, r) = SquareRootRem::sqrt_rem(&p);
            json!({"s": enc_u128(s as u128), "r": enc_u128(r as u128)})
        }));
    }};
}
macro_rules! cbrt_prim {
    ($t:ty, $p:expr, $outs:expr, $rem:expr) => {{
        let p: $t = $p;
        $outs.push(stringify!($t), guarded(|| json!({"s": enc_u128(CubicRoot::cbrt(&p) as u128)})));
        $rem.push(stringify!($t), guarded(|| {
            let (s, r) = CubicRootRem::cbrt_rem(&p);
            json!({"s": enc_u128(s as u128), "r": enc_u128(r as u128)})
        }));
    }};
}
fn run_root(log: &mut Log, x: &IBig, n: usize, src: &str) {
    let (mut outs, mut rem) = (Outs::new(), Outs::new());
    let neg = is_neg(x);
    let u = mag(x);
    if !neg {
        outs.push("U.nth_root", guarded(|| json!({"s": enc_u(&u.nth_root(n))})));
    }
    outs.push("I.nth_root", guarded(|| json!({"s": enc_i(&x.nth_root(n))})));
    if n == 2 {
        if !neg {
            outs.push("U.sqrt", guarded(|| json!({"s": enc_u(&SquareRoot::sqrt(&u))})));
            rem.push("U.sqrt_rem", guarded(|| {
                let (s, r) = SquareRootRem::sqrt_rem(&u);
                json!({"s": enc_u(&s), "r": enc_u(&r)})
            }));
            if let Some(p) = mag_u128(x) {
                for_uprims!(p, sqrt_prim, outs, rem);
            }
        }
        outs.push("I.sqrt", guarded(|| json!({"s": enc_u(&SquareRoot::sqrt(x))})));
    }
    if n == 3 {
        if !neg {
            outs.push("U.cbrt", guarded(|| json!({"s": enc_u(&CubicRoot::cbrt(&u))})));
            rem.push("U.cbrt_rem", guarded(|| {
                let (s, r) = CubicRootRem::cbrt_rem(&u);
                json!({"s": enc_u(&s), "r": enc_u(&r)})
            }));
            if let Some(p) = mag_u128(x) {
                for_uprims!(p, cbrt_prim, outs, rem);
            }
        }
        outs.push("I.cbrt", guarded(|| json!({"s": enc_i(&CubicRoot::cbrt(x))})));
    }
    log.ev(json!({"prop": "C12", "op": "root", "src": src, "build": BUILD, "profile": profile(), "x": enc_i(x), "n": n,
        "outs": outs.grouped(), "rem": rem.grouped()}));
}

// ---------------------------------------------------------------- ilog, remove
fn run_ilog(log: &mut Log, x: &IBig, b: &UBig, src: &str) {
    let mut outs = Outs::new();
    if !is_neg(x) {
        let u = mag(x);
        outs.push("U.ilog", guarded(|| json!({"e": enc_u128(u.ilog(b) as u128)})));
    }
    outs.push("I.ilog", guarded(|| json!({"e": enc_u128(x.ilog(b) as u128)})));
    log.ev(json!({"prop": "C12", "op": "ilog", "src": src, "build": BUILD, "profile": profile(), "x": enc_i(x), "b": enc_u(b), "outs": outs.grouped()}));
}
fn run_remove(log: &mut Log, x: &UBig, f: &UBig, src: &str) {
    let mut outs = Outs::new();
    outs.push("U.remove", guarded(|| {
        let mut y = x.clone();
        match y.remove(f) {
            Some(k) => json!({"some": 1, "k": enc_u128(k as u128), "y": enc_u(&y)}),
            None => json!({"some": 0, "k": enc_u128(0), "y": enc_u(&y)}),
        }
    }));
    log.ev(json!({"prop": "C12", "op": "remove", "src": src, "x": enc_u(x), "f": enc_u(f), "outs": outs.grouped()}));
}

// ---------------------------------------------------------------- log2_bounds
macro_rules! log2_uprim {
    ($t:ty, $p:expr, $outs:expr) => {{
        let p: $t = $p;
        $outs.push(stringify!($t), guarded(|| enc_bounds(p.log2_bounds())));
    }};
}
fn log2_int_forms(outs: &mut Outs, x: &IBig) {
    let neg = is_neg(x);
    if !neg {
        let u = mag(x);
        outs.push("U", guarded(|| enc_bounds(u.log2_bounds())));
        if let Some(p) = mag_u128(x) {
            for_uprims_usize!(p, log2_uprim, outs);
        }
    }
    outs.push("I", guarded(|| enc_bounds(x.log2_bounds())));
    if let Some(v) = small_signed(neg, &words_to_bytes(x.as_sign_words().1)) {
        for_iprims!(v, log2_uprim, outs);
    }
}
fn run_log2_int(log: &mut Log, x: &IBig, src: &str) {
    let mut outs = Outs::new();
    log2_int_forms(&mut outs, x);
    log.ev(json!({"prop": "C12", "op": "log2", "kind": "int", "src": src, "build": BUILD, "x": enc_i(x), "outs": outs.grouped()}));
}
fn run_log2_f32(log: &mut Log, bits: u32, src: &str) {
    let v = f32::from_bits(bits);
    let mut outs = Outs::new();
    outs.push("f32", guarded(|| enc_bounds(v.log2_bounds())));
    // the same value as an f64 (widening is exact)
    outs.push("f32as64", guarded(|| enc_bounds((v as f64).log2_bounds())));
    log.ev(json!({"prop": "C12", "op": "log2", "kind": "f32", "src": src, "build": BUILD,
        "bits": [bits >> 16, bits & 0xffff], "outs": outs.grouped()}));
}
fn run_log2_f64(log: &mut Log, bits: u64, src: &str) {
    let v = f64::from_bits(bits);
    let mut outs = Outs::new();
    outs.push("f64", guarded(|| enc_bounds(v.log2_bounds())));
    log.ev(json!({"prop": "C12", "op": "log2", "kind": "f64", "src": src, "build": BUILD,
        "bits": [(bits >> 48) & 0xffff, (bits >> 32) & 0xffff, (bits >> 16) & 0xffff, bits & 0xffff], "outs": outs.grouped()}));
}
fn log2_fbig<const B: dashu_int::Word>(outs: &mut Outs, sig: &IBig, exp: isize) {
    let r = Repr::<B>::new(sig.clone(), exp);
    outs.push("repr", guarded(|| enc_bounds(r.log2_bounds())));
    let f = FBig::<dashu_float::round::mode::Zero, B>::from_repr(r.clone(), Context::new(0));
    outs.push("fbig", guarded(|| enc_bounds(f.log2_bounds())));
}
fn run_log2_fbig(log: &mut Log, base: u64, sig: &IBig, exp: isize, src: &str) {
    let mut outs = Outs::new();
    match base {
        2 => log2_fbig::<2>(&mut outs, sig, exp),
        3 => log2_fbig::<3>(&mut outs, sig, exp),
        10 => log2_fbig::<10>(&mut outs, sig, exp),
        16 => log2_fbig::<16>(&mut outs, sig, exp),
        36 => log2_fbig::<36>(&mut outs, sig, exp),
        other => panic!("unsupported base {}", other),
    }
    log.ev(json!({"prop": "C12", "op": "log2", "kind": "fbig", "src": src, "build": BUILD,
        "base": base, "sig": enc_i(sig), "exp": exp as i64, "outs": outs.grouped()}));
}
fn run_log2_rbig(log: &mut Log, num: &IBig, den: &UBig, src: &str) {
    let mut outs = Outs::new();
    let q = RBig::from_parts(num.clone(), den.clone());
    outs.push("rbig", guarded(|| enc_bounds(q.log2_bounds())));
    let r = Relaxed::from_parts(num.clone(), den.clone());
    outs.push("relaxed", guarded(|| enc_bounds(r.log2_bounds())));
    log.ev(json!({"prop": "C12", "op": "log2", "kind": "rbig", "src": src, "build": BUILD,
        "num": enc_i(num), "den": enc_u(den), "outs": outs.grouped()}));
}

// ---------------------------------------------------------------- exhaustive primitives
macro_rules! prim_sqrt {
    ($t:ty, $p:expr, $o:expr, $r:expr) => {{
        let p: $t = $p;
        $o.push(stringify!($t), guarded(|| json!({"s": clamp_u(SquareRoot::sqrt(&p) as u128)})));
        $r.push(stringify!($t), guarded(|| { let (s, r) = SquareRootRem::sqrt_rem(&p); json!({"s": clamp_u(s as u128), "r": clamp_u(r as u128)}) }));
    }};
}
macro_rules! prim_cbrt {
    ($t:ty, $p:expr, $o:expr, $r:expr) => {{
        let p: $t = $p;
        $o.push(stringify!($t), guarded(|| json!({"s": clamp_u(CubicRoot::cbrt(&p) as u128)})));
        $r.push(stringify!($t), guarded(|| { let (s, r) = CubicRootRem::cbrt_rem(&p); json!({"s": clamp_u(s as u128), "r": clamp_u(r as u128)}) }));
    }};
}
macro_rules! prim_gcd {
    ($t:ty, $p:expr, $o:expr, $x:expr, $q:expr) => {{
        let q: u128 = $q;
        if q <= <$t>::MAX as u128 {
            let (p, q) = ($p, q as $t);
            $o.push(stringify!($t), guarded(|| json!({"g": clamp_u(Gcd::gcd(p, q) as u128)})));
            $x.push(stringify!($t), guarded(|| { let (g, s, t) = ExtendedGcd::gcd_ext(p, q);
                json!({"g": clamp_u(g as u128), "s": clamp_i(s as i128), "t": clamp_i(t as i128)}) }));
        }
    }};
}
fn default_partners(n: u32, pmode: &str) -> Vec<u32> {
    if pmode == "all8" {
        return (0..256).collect();
    }
    let mut v = vec![0, 1, n, (n + 1) & 0xffff, 65535 - n, (n.wrapping_mul(40503).wrapping_add(1)) & 0xffff,
        (n >> 8) | 1, ((n & 0xff) << 8) & 0xffff, 65521, 32768];
    v.dedup();
    v
}
fn run_prim(log: &mut Log, n: u32, partners: &[u32], roots: &[usize], bases: &[u32], only: &str, src: &str) {
    let mut ev = json!({"prop": "C12", "op": "prim", "src": src, "build": BUILD, "n": n, "partners": partners,
        "roots": roots, "bases": bases, "only": only});
    let x = IBig::from_parts(Sign::Positive, ubig_from_bytes(&n.to_le_bytes()));
    let u = mag(&x);
    let p = n as u128;
    // log2_bounds in every build
    let mut lg = Outs::new();
    log2_int_forms(&mut lg, &x);
    if n != 0 {
        let nx = IBig::from_parts(Sign::Negative, u.clone());
        lg.push("I-", guarded(|| enc_bounds(nx.log2_bounds())));
        for_iprims!(-(n as i128), log2_uprim, lg);
    }
    lg.push("f32", guarded(|| enc_bounds((n as f32).log2_bounds())));   // exact: n < 2^24
    lg.push("f64", guarded(|| enc_bounds((n as f64).log2_bounds())));
    ev["log2"] = lg.grouped();
    if only == "all" {
        let (mut o, mut r) = (Outs::new(), Outs::new());
        for_uprims!(p, prim_sqrt, o, r);
        o.push("U", guarded(|| json!({"s": small_u(&SquareRoot::sqrt(&u))})));
        o.push("I", guarded(|| json!({"s": small_u(&SquareRoot::sqrt(&x))})));
        r.push("U", guarded(|| { let (s, r) = SquareRootRem::sqrt_rem(&u); json!({"s": small_u(&s), "r": small_u(&r)}) }));
        ev["sqrt"] = o.grouped();
        ev["sqrt_rem"] = r.grouped();
        let (mut o, mut r) = (Outs::new(), Outs::new());
        for_uprims!(p, prim_cbrt, o, r);
        o.push("U", guarded(|| json!({"s": small_u(&CubicRoot::cbrt(&u))})));
        o.push("I", guarded(|| json!({"s": small_i(&CubicRoot::cbrt(&x))})));
        r.push("U", guarded(|| { let (s, r) = CubicRootRem::cbrt_rem(&u); json!({"s": small_u(&s), "r": small_u(&r)}) }));
        ev["cbrt"] = o.grouped();
        ev["cbrt_rem"] = r.grouped();
        let mut nth = vec![];
        for &k in roots {
            let mut o = Outs::new();
            o.push("U", guarded(|| json!({"s": small_u(&u.nth_root(k))})));
            o.push("I", guarded(|| json!({"s": small_i(&x.nth_root(k))})));
            nth.push(json!({"k": k, "outs": o.grouped()}));
        }
        ev["nth"] = Value::Array(nth);
        let mut il = vec![];
        for &b in bases {
            let bb = ubig_from_bytes(&b.to_le_bytes());
            let mut o = Outs::new();
            o.push("U", guarded(|| json!({"e": clamp_u(u.ilog(&bb) as u128)})));
            o.push("I", guarded(|| json!({"e": clamp_u(x.ilog(&bb) as u128)})));
            il.push(json!({"b": b, "outs": o.grouped()}));
        }
        ev["ilog"] = Value::Array(il);
        let mut gc = vec![];
        for &m in partners {
            let (mut o, mut xo) = (Outs::new(), Outs::new());
            for_uprims_usize!(p, prim_gcd, o, xo, m as u128);
            let um = ubig_from_bytes(&m.to_le_bytes());
            o.push("U", guarded(|| json!({"g": small_u(&Gcd::gcd(&u, &um))})));
            xo.push("U", guarded(|| { let (g, s, t) = ExtendedGcd::gcd_ext(&u, &um);
                json!({"g": small_u(&g), "s": small_i(&s), "t": small_i(&t)}) }));
            gc.push(json!({"m": m, "outs": o.grouped(), "ext": xo.grouped()}));
        }
        ev["gcd"] = Value::Array(gc);
    }
    log.ev(ev);
}

// ---------------------------------------------------------------- case dispatch
fn u32s(v: &Value) -> Vec<u32> {
    v.as_array().map(|a| a.iter().map(|x| x.as_u64().unwrap() as u32).collect()).unwrap_or_default()
}
fn run_case(log: &mut Log, c: &Value, src: &str, only_log2: bool) {
    let op = c["op"].as_str().unwrap();
    match op {
        "gcd" if !only_log2 => run_gcd(log, &dec_i(&c["a"]), &dec_i(&c["b"]), src),
        "root" if !only_log2 => run_root(log, &dec_i(&c["x"]), c["n"].as_u64().unwrap() as usize, src),
        "ilog" if !only_log2 => run_ilog(log, &dec_i(&c["x"]), &dec_u(&c["b"]), src),
        "remove" if !only_log2 => run_remove(log, &dec_u(&c["x"]), &dec_u(&c["f"]), src),
        "log2" => match c["kind"].as_str().unwrap() {
            "int" => run_log2_int(log, &dec_i(&c["x"]), src),
            "f32" => {
                let b = u32s(&c["bits"]);
                run_log2_f32(log, (b[0] << 16) | b[1], src)
            }
            "f64" => {
                let b = u32s(&c["bits"]);
                run_log2_f64(log, ((b[0] as u64) << 48) | ((b[1] as u64) << 32) | ((b[2] as u64) << 16) | b[3] as u64, src)
            }
            "fbig" => run_log2_fbig(log, c["base"].as_u64().unwrap(), &dec_i(&c["sig"]), c["exp"].as_i64().unwrap() as isize, src),
            "rbig" => run_log2_rbig(log, &dec_i(&c["num"]), &dec_u(&c["den"]), src),
            k => panic!("unknown log2 kind {}", k),
        },
        "prim" => {
            let only = if only_log2 { "log2" } else { c["only"].as_str().unwrap_or("all") };
            let roots: Vec<usize> = if c["roots"].is_array() { u32s(&c["roots"]).into_iter().map(|x| x as usize).collect() } else { vec![1, 4, 5, 7, 16, 17] };
            let bases = if c["bases"].is_array() { u32s(&c["bases"]) } else { vec![2, 3, 4, 10, 255, 256] };
            if c["n"].is_u64() {
                let n = c["n"].as_u64().unwrap() as u32;
                let partners = if c["partners"].is_array() { u32s(&c["partners"]) } else { default_partners(n, "few") };
                run_prim(log, n, &partners, &roots, &bases, only, src);
            } else {
                let (lo, hi, step) = (c["lo"].as_u64().unwrap() as u32, c["hi"].as_u64().unwrap() as u32, c["step"].as_u64().unwrap_or(1).max(1) as u32);
                let pmode = c["pmode"].as_str().unwrap_or("few");
                let mut n = lo;
                while n <= hi {
                    run_prim(log, n, &default_partners(n, pmode), &roots, &bases, only, src);
                    n += step;
                }
            }
        }
        _ if only_log2 => {}
        other => panic!("unknown op {}", other),
    }
}

// ---------------------------------------------------------------- seeded random drivers
fn random_small_or_big(rng: &mut Rng, max_words: usize) -> IBig {
    if rng.below(4) == 0 {
        random_ibig(rng, 2)
    } else {
        random_ibig(rng, max_words)
    }
}
fn shl_words(x: &UBig, z: usize) -> UBig {
    let mut b = vec![0u8; 8 * z];
    b.extend_from_slice(&words_to_bytes(x.as_words()));
    if x.as_words().is_empty() {
        return ubig_from_bytes(&[]);
    }
    ubig_from_bytes(&b)
}
fn random_driver(log: &mut Log, rng: &mut Rng, n: u64, max_words: usize, only_log2: bool) {
    for _ in 0..n {
        let k = if only_log2 { 80 + rng.below(20) } else { rng.below(100) };
        if k < 30 {
            // gcd: planted common factor, multiples, trailing zero words, unbalanced sizes
            let g = random_ubig(rng, (max_words / 3).max(1));
            let u = random_small_or_big(rng, (max_words * 2 / 3).max(1));
            let v = random_small_or_big(rng, (max_words * 2 / 3).max(1));
            let (mut a, mut b) = match rng.below(8) {
                0 => (u.clone(), v.clone()),
                1 => (u.clone(), u.clone()),
                2 => (u.clone(), IBig::from_parts(Sign::Positive, ubig_from_bytes(&[]))),
                3 => (&u * &v, v.clone()),                       // one divides the other
                _ => (&u * IBig::from(g.clone()), &v * IBig::from(g.clone())),
            };
            if rng.below(5) == 0 {
                let z = rng.below(5) as usize;
                a = IBig::from_parts(a.as_sign_words().0, shl_words(&mag(&a), z));
                if rng.coin() {
                    b = IBig::from_parts(b.as_sign_words().0, shl_words(&mag(&b), rng.below(5) as usize));
                }
            }
            if rng.coin() {
                core::mem::swap(&mut a, &mut b);
            }
            run_gcd(log, &a, &b, "rnd");
        } else if k < 60 {
            let n = match rng.below(10) {
                0 => 0,
                1 => 1,
                2..=4 => 2,
                5..=6 => 3,
                _ => 4 + rng.below(9) as usize,
            };
            let x = match rng.below(4) {
                0 => random_ibig(rng, max_words),
                1 => {
                    // near a perfect power
                    let s = random_ubig(rng, (max_words / n.max(1)).max(1));
                    let p = IBig::from(s.pow(n.max(1)));
                    let d = IBig::from(rng.below(3) as i8 - 1);
                    let y = p + d;
                    if rng.below(4) == 0 { -y } else { y }
                }
                _ => random_small_or_big(rng, max_words),
            };
            run_root(log, &x, n, "rnd");
        } else if k < 72 {
            let x = random_small_or_big(rng, max_words);
            let b = match rng.below(6) {
                0 => ubig_from_bytes(&[rng.below(4) as u8]),
                1 => ubig_from_bytes(&[2 + rng.below(40) as u8]),
                2 => random_ubig(rng, 1),
                3 => random_ubig(rng, 2),
                4 => ubig_from_bytes(&[0, 0, 0, 0, 0, 0, 0, 0, 1]),
                _ => random_ubig(rng, (max_words / 4).max(1)),
            };
            run_ilog(log, &x, &b, "rnd");
        } else if k < 80 {
            let f = match rng.below(5) {
                0 => ubig_from_bytes(&[rng.below(4) as u8]),
                1 => ubig_from_bytes(&[2 + rng.below(30) as u8]),
                2 => random_ubig(rng, 1),
                _ => random_ubig(rng, 3),
            };
            let y = random_ubig(rng, (max_words / 2).max(1));
            let e = rng.below(7) as usize;
            let x = if rng.below(3) == 0 { y } else { f.pow(e) * y };
            run_remove(log, &x, &f, "rnd");
        } else if k < 88 {
            run_log2_int(log, &random_small_or_big(rng, max_words), "rnd");
        } else if k < 92 {
            let bits = match rng.below(3) {
                0 => rng.next() as u32,
                1 => (rng.below(255) as u32) << 23 | [0u32, 1, 1 << 22, (1 << 23) - 1][rng.below(4) as usize],
                _ => (127u32 << 23) + rng.below(64) as u32 - 32 * rng.below(2) as u32,
            };
            if f32::from_bits(bits).is_nan() { continue; }
            run_log2_f32(log, bits, "rnd");
        } else if k < 95 {
            let bits = match rng.below(3) {
                0 => rng.next(),
                1 => (rng.below(2047)) << 52 | [0u64, 1, 1 << 51, (1 << 52) - 1][rng.below(4) as usize],
                _ => (1023u64 << 52) + rng.below(64) - 32 * rng.below(2),
            };
            if f64::from_bits(bits).is_nan() { continue; }
            run_log2_f64(log, bits, "rnd");
        } else if k < 98 {
            let num = random_small_or_big(rng, max_words);
            let dw = if rng.coin() { 2 } else { max_words };
            let mut den = random_ubig(rng, dw);
            if den.as_words().is_empty() { den = ubig_from_bytes(&[3]); }
            run_log2_rbig(log, &num, &den, "rnd");
        } else {
            let sig = random_small_or_big(rng, (max_words / 2).max(1));
            let exp = rng.range(-200, 200) as isize;
            run_log2_fbig(log, *rng.pick(&[2u64, 3, 10, 16, 36]), &sig, exp, "rnd");
        }
    }
}

fn main() {
    let args = &start();
    let mut log = Log::create(&args.out);
    let mut rng = Rng::new(args.seed);
    let only_log2 = args.extra.iter().any(|a| a == "--only-log2");
    if let Some(path) = &args.cases {
        for c in read_cases(path) {
            let src = match (c["fam"].as_str(), c["src"].as_str()) {
                (Some(f), _) => format!("gen:{}", f),
                (None, Some(s)) => s.to_string(),
                _ => "case".to_string(),
            };
            run_case(&mut log, &c, &src, only_log2);
        }
    }
    random_driver(&mut log, &mut rng, args.n, args.max_words, only_log2);
    // --lehmer K W: K gcd cases above the length W (words) where the Lehmer loop switches to double-word guesses:
    // a = g * u, b = g * v with a dense g of W.. words and random u, v of a few dozen words (their gcd is almost always 1, so the
    // quotient sequence is that of (u, v) and the monitor's divisibility / Bezout checks stay cheap)
    if let Some(i) = args.extra.iter().position(|a| a == "--lehmer") {
        let k: u64 = args.extra[i + 1].parse().unwrap();
        let w: usize = args.extra[i + 2].parse().unwrap();
        for j in 0..k {
            let gw = w + rng.below(6) as usize;
            let pat = rng.next();
            let g = IBig::from(ubig_from_bytes(&pattern_bytes(&mut rng, 8 * gw, pat)) + UBig::ONE);
            // long enough that the guesses from the top double words never see the end of the quotient sequence:
            // every iteration then fills the cofactors up to their limit, as for unrelated operands
            let (uw, vw) = (24 + rng.below(8) as usize, 24 + rng.below(8) as usize);
            let mut u = IBig::from(ubig_from_bytes(&pattern_bytes(&mut rng, 8 * uw, 0)) + UBig::ONE);
            let v = IBig::from(ubig_from_bytes(&pattern_bytes(&mut rng, 8 * vw, 0)) + UBig::ONE);
            if j % 3 == 2 {
                u = -u;
            }
            let (a, b) = (&g * &u, &g * &v);
            if j % 2 == 0 { run_gcd(&mut log, &a, &b, "lehmer") } else { run_gcd(&mut log, &b, &a, "lehmer") }
        }
    }
    // --cf K: K gcd cases built from a continued fraction [q1; q2, ...] whose convergent denominators (the cofactors the
    // extended gcd tracks) cross a word boundary at a partial quotient q_i that is immediately followed by a HUGE partial
    // quotient (the next remainder is below the operands' top word): there the top-word guess of the Lehmer loop sees a
    // ratio that is an integer up to its truncation error, the place where a guessed quotient can be one too small
    // (GcdExtAlg: the cofactor of the larger remainder is then the LONGER one, which the Euclidean update does not expect)
    if let Some(i) = args.extra.iter().position(|a| a == "--cf") {
        let k: u64 = args.extra[i + 1].parse().unwrap();
        for j in 0..k {
            let boundary = UBig::ONE << (64 * (1 + rng.below(3) as usize));
            let mut qs: Vec<UBig> = Vec::new();
            let (mut t0, mut t1) = (UBig::ZERO, UBig::ONE);
            loop {
                let z = rng.next();
                let q = UBig::from(1 + (z % 8) * ((z >> 8) % 3) / 2 + (if z >> 60 == 0 { (z >> 20) % 5000 } else { 0 }));
                let t2 = &t0 + &q * &t1;
                if t2 >= boundary {
                    // t0 + (q_i - 1) t1 >= boundary > t1
                    qs.push((&boundary - &t0 + &t1 - UBig::ONE) / &t1 + UBig::ONE + UBig::from(rng.below(3)));
                    break;
                }
                qs.push(q);
                t0 = t1;
                t1 = t2;
            }
            qs.push((UBig::ONE << (56 + rng.below(20) as usize)) + UBig::from(rng.next()));
            for _ in 0..rng.below(6) {
                qs.push(UBig::from(1 + rng.below(9)));
            }
            qs.push(UBig::from(2 + rng.below(9)));
            let (mut a, mut b) = (UBig::ONE, UBig::ZERO);
            for q in qs.iter().rev() {
                let na = q * &a + &b;
                b = a;
                a = na;
            }
            let g = UBig::from(1 + rng.below(3));
            let (mut a, b) = (IBig::from(a * &g), IBig::from(b * &g));
            if j % 5 == 4 {
                a = -a;
            }
            if j % 2 == 0 { run_gcd(&mut log, &a, &b, "cf") } else { run_gcd(&mut log, &b, &a, "cf") }
        }
    }
    // --smallfam K: gcd / gcd_ext between a multi-word value and a one- or two-word value d with a planted relation
    // a = k d + delta, delta in {0 (d divides: the quotient stays in the cofactor's buffer), 1, d - 1, random}: the branches of
    // gcd_ext_word / gcd_ext_dword (GcdExtAlg!PrimGcdExt, ModInvAlg!GcdExtSmall)
    if let Some(i) = args.extra.iter().position(|a| a == "--smallfam") {
        let k: u64 = args.extra[i + 1].parse().unwrap();
        for j in 0..k {
            let dw = 1 + (j % 2) as usize;
            let pat = if j % 3 == 0 { rng.next() } else { 0 };
            let d = ubig_from_bytes(&pattern_bytes(&mut rng, 8 * dw, pat)) + UBig::from(2u8);
            let kw = 2 + rng.below(4) as usize;
            let kpat = if j % 5 == 0 { rng.next() } else { 0 };
            let kk = ubig_from_bytes(&pattern_bytes(&mut rng, 8 * kw, kpat)) + UBig::ONE;
            let delta = match (j / 2) % 4 {
                0 => UBig::ZERO,
                1 => UBig::ONE,
                2 => &d - UBig::ONE,
                _ => ubig_from_bytes(&pattern_bytes(&mut rng, 8 * dw, 0)) % &d,
            };
            let mut a = IBig::from(&kk * &d + delta);
            let d = IBig::from(d);
            if j % 7 == 6 {
                a = -a;
            }
            if j % 2 == 0 { run_gcd(&mut log, &a, &d, "smallfam") } else { run_gcd(&mut log, &d, &a, "smallfam") }
        }
    }
    let n = log.finish();
    eprintln!("c12[{}]: {} events", BUILD, n);
}
