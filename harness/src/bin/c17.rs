//! C17: the hand-managed integer storage is memory safe and keeps its invariants.
//!
//! The same pool machine as C05 (integer pools), executed
//!  * natively under a recording `#[global_allocator]` (no change to the library): every block
//!    carries a header and poisoned red zones that are checked when it is freed; allocator events
//!    (alloc / dealloc / realloc with block identity, size, alignment) are interleaved with the
//!    operations of the history, so that the HeapDef monitor can replay them;
//!  * under Miri (`cargo +nightly miri run --bin c17`), where the recording allocator is compiled
//!    out and Miri itself is the executor that observes out-of-bounds accesses, use after free,
//!    invalid frees, leaks and other undefined behaviour.
//! The harness judges nothing: red-zone state, sizes and identities are logged for the monitor.
use dashu_verif_harness::common::*;
use serde_json::{json, Value};

#[path = "../c05_pool.rs"]
mod pool;
use pool::*;

// ------------------------------------------------------------------------------------------
// recording allocator
// ------------------------------------------------------------------------------------------
#[cfg(not(miri))]
mod rec {
    use std::alloc::{GlobalAlloc, Layout, System};
    use std::cell::UnsafeCell;

    const MAGIC_LIVE: u64 = 0x5AFE_B10C_A11C_0DE5;
    const MAGIC_FREE: u64 = 0xDEAD_B10C_F4EE_D0FF;
    const ZONE: usize = 64; // bytes of red zone on each side (the header lives in the front zone)
    const POISON_ZONE: u8 = 0xA5;
    const POISON_FREED: u8 = 0xDD;
    const POISON_FRESH: u8 = 0xCD;
    const MAX_EVENTS: usize = 1 << 14;
    const MAX_LIVE: usize = 1 << 12;
    const QUARANTINE: usize = 1 << 12;

    #[repr(C)]
    struct Header {
        magic: u64,
        size: u64,
        align: u64,
        id: u64, // 0: not recorded
    }
    #[derive(Clone, Copy)]
    pub struct Event(pub [u64; 6]);

    struct State {
        recording: bool,
        next_id: u64,
        events: [Event; MAX_EVENTS],
        nevents: usize,
        overflow: bool,
        live: [(usize, u64); MAX_LIVE], // (user pointer, id) of recorded live blocks
        nlive: usize,
        quarantine: [(usize, usize, usize); QUARANTINE], // (base, total size, align) of freed recorded blocks
        qhead: usize,
        qlen: usize,
    }
    pub struct Recorder(UnsafeCell<State>);
    // the harness is single threaded
    unsafe impl Sync for Recorder {}
    #[global_allocator]
    pub static REC: Recorder = Recorder(UnsafeCell::new(State {
        recording: false,
        next_id: 1,
        events: [Event([0; 6]); MAX_EVENTS],
        nevents: 0,
        overflow: false,
        live: [(0, 0); MAX_LIVE],
        nlive: 0,
        quarantine: [(0, 0, 0); QUARANTINE],
        qhead: 0,
        qlen: 0,
    }));

    fn front(align: usize) -> usize {
        ZONE.max(align)
    }
    impl State {
        fn push(&mut self, e: [u64; 6]) {
            if self.nevents < MAX_EVENTS {
                self.events[self.nevents] = Event(e);
                self.nevents += 1;
            } else {
                self.overflow = true;
            }
        }
        fn live_add(&mut self, p: usize, id: u64) {
            if self.nlive < MAX_LIVE {
                self.live[self.nlive] = (p, id);
                self.nlive += 1;
            } else {
                self.overflow = true;
            }
        }
        fn live_remove(&mut self, p: usize) {
            for i in 0..self.nlive {
                if self.live[i].0 == p {
                    self.live[i] = self.live[self.nlive - 1];
                    self.nlive -= 1;
                    return;
                }
            }
        }
    }
    impl Recorder {
        #[allow(clippy::mut_from_ref)]
        fn st(&self) -> &mut State {
            unsafe { &mut *self.0.get() }
        }
        pub fn set_recording(&self, on: bool) {
            self.st().recording = on;
        }
        /// identity of the recorded live block starting at user pointer p (0 if none)
        pub fn id_of(&self, p: usize) -> usize {
            let s = self.st();
            for i in 0..s.nlive {
                if s.live[i].0 == p {
                    return s.live[i].1 as usize;
                }
            }
            0
        }
        pub fn drain(&self) -> (Vec<[u64; 6]>, bool) {
            // recording is off here, so the Vec below adds no events
            let (n, of) = {
                let s = self.st();
                (s.nevents, s.overflow)
            };
            let mut out = Vec::with_capacity(n);
            for i in 0..n {
                out.push(self.st().events[i].0);
            }
            let s = self.st();
            s.nevents = 0;
            s.overflow = false;
            (out, of)
        }
        unsafe fn do_alloc(&self, layout: Layout, zeroed: bool) -> (*mut u8, u64) {
            let f = front(layout.align());
            let total = f + layout.size() + ZONE;
            let base = System.alloc(Layout::from_size_align_unchecked(total, layout.align().max(16)));
            if base.is_null() {
                return (base, 0);
            }
            let s = self.st();
            let id = if s.recording {
                let id = s.next_id;
                s.next_id += 1;
                id
            } else {
                0
            };
            std::ptr::write_bytes(base, POISON_ZONE, f);
            let user = base.add(f);
            std::ptr::write_bytes(user, if zeroed { 0 } else { POISON_FRESH }, layout.size());
            std::ptr::write_bytes(user.add(layout.size()), POISON_ZONE, ZONE);
            let h = user.sub(std::mem::size_of::<Header>()) as *mut Header;
            h.write(Header { magic: MAGIC_LIVE, size: layout.size() as u64, align: layout.align() as u64, id });
            if id != 0 {
                s.live_add(user as usize, id);
            }
            (user, id)
        }
        /// validates the block at `user` against `layout`; returns (id, true) if it may be released
        unsafe fn check_free(&self, user: *mut u8, layout: Layout) -> (u64, bool) {
            let s = self.st();
            let h = user.sub(std::mem::size_of::<Header>()) as *mut Header;
            let hd = h.read();
            if hd.magic == MAGIC_FREE {
                // second free of a quarantined block: [6, id, size, align]
                s.push([6, hd.id, layout.size() as u64, layout.align() as u64, 0, 0]);
                return (hd.id, false);
            }
            if hd.magic != MAGIC_LIVE {
                // not a block of this allocator (or its header was overwritten): [5, 0, size, align]
                s.push([5, 0, layout.size() as u64, layout.align() as u64, 0, 0]);
                return (0, false);
            }
            let f = front(hd.align as usize);
            let base = user.sub(f);
            // red zones: everything in front of the header, and the rear zone, must be untouched
            let mut front_ok = true;
            for i in 0..(f - std::mem::size_of::<Header>()) {
                if *base.add(i) != POISON_ZONE {
                    front_ok = false;
                }
            }
            let mut rear_ok = true;
            for i in 0..ZONE {
                if *user.add(hd.size as usize + i) != POISON_ZONE {
                    rear_ok = false;
                }
            }
            if hd.id != 0 && !(front_ok && rear_ok) {
                s.push([4, hd.id, front_ok as u64, rear_ok as u64, 0, 0]);
            }
            (hd.id, true)
        }
        unsafe fn release(&self, user: *mut u8, recorded: bool) {
            let s = self.st();
            let h = user.sub(std::mem::size_of::<Header>()) as *mut Header;
            let hd = h.read();
            let f = front(hd.align as usize);
            let base = user.sub(f);
            let total = f + hd.size as usize + ZONE;
            let align = (hd.align as usize).max(16);
            if !recorded {
                (*h).magic = 0;
                System.dealloc(base, Layout::from_size_align_unchecked(total, align));
                return;
            }
            // recorded blocks are poisoned and quarantined: a stale pointer reads garbage, a second
            // free is recognised, the address is not handed out again for a while
            std::ptr::write_bytes(user, POISON_FREED, hd.size as usize);
            (*h).magic = MAGIC_FREE;
            s.live_remove(user as usize);
            if s.qlen == QUARANTINE {
                let (b, t, a) = s.quarantine[s.qhead];
                System.dealloc(b as *mut u8, Layout::from_size_align_unchecked(t, a));
                s.qhead = (s.qhead + 1) % QUARANTINE;
                s.qlen -= 1;
            }
            let tail = (s.qhead + s.qlen) % QUARANTINE;
            s.quarantine[tail] = (base as usize, total, align);
            s.qlen += 1;
        }
    }
    unsafe impl GlobalAlloc for Recorder {
        unsafe fn alloc(&self, layout: Layout) -> *mut u8 {
            let (p, id) = self.do_alloc(layout, false);
            if id != 0 {
                self.st().push([1, id, layout.size() as u64, layout.align() as u64, 0, 0]);
            }
            p
        }
        unsafe fn alloc_zeroed(&self, layout: Layout) -> *mut u8 {
            let (p, id) = self.do_alloc(layout, true);
            if id != 0 {
                self.st().push([1, id, layout.size() as u64, layout.align() as u64, 0, 0]);
            }
            p
        }
        unsafe fn dealloc(&self, ptr: *mut u8, layout: Layout) {
            let (id, ok) = self.check_free(ptr, layout);
            if !ok {
                return;
            }
            if id != 0 {
                self.st().push([2, id, layout.size() as u64, layout.align() as u64, 0, 0]);
            }
            self.release(ptr, id != 0);
        }
        unsafe fn realloc(&self, ptr: *mut u8, layout: Layout, new_size: usize) -> *mut u8 {
            let (id, ok) = self.check_free(ptr, layout);
            if !ok {
                return std::ptr::null_mut();
            }
            // always moves: the old block is released, so stale pointers into it are caught
            let was_recording = self.st().recording;
            if id != 0 {
                self.st().recording = true; // the new block inherits the recorded status
            } else {
                self.st().recording = false;
            }
            let (np, nid) = self.do_alloc(Layout::from_size_align_unchecked(new_size, layout.align()), false);
            self.st().recording = was_recording;
            if np.is_null() {
                return np;
            }
            let h = ptr.sub(std::mem::size_of::<Header>()) as *mut Header;
            let old_size = (*h).size as usize;
            std::ptr::copy_nonoverlapping(ptr, np, old_size.min(new_size));
            if id != 0 {
                self.st().push([3, id, layout.size() as u64, layout.align() as u64, nid, new_size as u64]);
            }
            self.release(ptr, id != 0);
            np
        }
    }
}

#[cfg(not(miri))]
pub fn ptr_id(p: usize) -> usize {
    if p == 0 {
        0
    } else {
        rec::REC.id_of(p)
    }
}
#[cfg(miri)]
pub fn ptr_id(_p: usize) -> usize {
    0
}

#[cfg(not(miri))]
fn drain_events() -> Value {
    let (evs, overflow) = rec::REC.drain();
    if overflow {
        eprintln!("c17: allocator event buffer overflow");
        std::process::exit(4);
    }
    Value::Array(
        evs.iter()
            .map(|e| match e[0] {
                3 => json!([3, e[1], e[2], e[3], e[4], e[5]]),
                _ => json!([e[0], e[1], e[2], e[3]]),
            })
            .collect(),
    )
}
#[cfg(miri)]
fn drain_events() -> Value {
    json!([])
}
fn set_recording(_on: bool) {
    #[cfg(not(miri))]
    rec::REC.set_recording(_on);
}

fn main() {
    let args = &start();
    let mut log = Log::create(&args.out);
    let mut rng = Rng::new(args.seed);
    let mut window = |f: &mut dyn FnMut()| -> Value {
        set_recording(true);
        f();
        set_recording(false);
        drain_events()
    };
    let mut faults = 0u64;
    // --text (always under Miri): hand-written event lines, no allocator events; --lite: value + triple only
    let text = cfg!(miri) || args.extra.iter().any(|x| x == "--text");
    let lite = text || args.extra.iter().any(|x| x == "--lite");
    // a history that kills the process (abort from a std precondition check, a fault) is left in <out>.current
    let cur_path = format!("{}.current", args.out);
    let mut emit = |log: &mut Log, case: &Value, src: &str, faults: &mut u64| {
        if !cfg!(miri) {
            let _ = std::fs::write(&cur_path, format!("{}\n", case));
        }
        let _ = drain_events();
        let mut ev = run_history_opt(case, &mut window, lite);
        // everything the history allocated is gone by now; late frees of harness temporaries included
        let late = drain_events();
        if let (Some(a), Some(b)) = (ev["alend"].as_array().cloned(), late.as_array()) {
            let mut a = a;
            a.extend(b.iter().cloned());
            ev["alend"] = Value::Array(a);
        }
        ev["prop"] = json!("C17");
        ev["src"] = json!(src);
        ev["noalloc"] = json!(cfg!(miri));
        if ev.get("fault").is_some() {
            *faults += 1;
            eprintln!("c17: harness fault in case {}", case);
        }
        log.ev(ev);
    };
    if let Some(path) = &args.cases {
        if text {
            // text fast path (Miri): one line in, one line out, flushed so that an aborted run shows where it stopped
            use std::io::{BufRead, Write};
            let f = std::io::BufReader::new(std::fs::File::open(path).expect("open case file"));
            let mut w = std::io::BufWriter::new(std::fs::File::create(&args.out).expect("create trace file"));
            let mut n = 0;
            for line in f.lines() {
                let line = line.unwrap();
                if line.trim().is_empty() {
                    continue;
                }
                let case: Value = serde_json::from_str(&line).expect("case line");
                n += 1;
                let (line_out, fault) = run_history_text(&line, &case, ",\"prop\":\"C17\",\"src\":\"miri\"");
                if fault {
                    eprintln!("c17: harness fault in case {}", line);
                    std::process::exit(3);
                }
                w.write_all(line_out.as_bytes()).unwrap();
                w.write_all(b"\n").unwrap();
                w.flush().unwrap();
            }
            w.flush().unwrap();
            eprintln!("c17: {} histories (text mode)", n);
            return;
        }
        for c in read_cases(path) {
            emit(&mut log, &c, "gen", &mut faults);
        }
    }
    let len = args.extra.iter().position(|x| x == "--len").map(|i| args.extra[i + 1].parse().unwrap()).unwrap_or(16usize);
    for i in 0..args.n {
        let kind = if i % 2 == 0 { "U" } else { "I" };
        let nr = 3 + rng.below(3) as usize;
        let mut case = gen_int_history(&mut rng, kind, nr, len, args.max_words);
        // capacity probes (UBig): the history is executed once unrecorded to learn the capacity each register ends with
        // (allocation sizes depend on the operations only), then set_bit steps are appended at bit indices relative to
        // that capacity: the last bit the buffer holds, the first one beyond it, one word further
        if i % 3 == 0 {
            let mut quiet = |f: &mut dyn FnMut()| -> Value {
                f();
                json!([])
            };
            let dry = run_history_opt(&case, &mut quiet, true);
            let _ = drain_events();
            add_probes(&mut case, &mut rng, kind, &dry["fin"]["t"]);
        }
        emit(&mut log, &case, "rnd", &mut faults);
    }
    if !cfg!(miri) {
        let _ = std::fs::remove_file(format!("{}.current", args.out));
    }
    let n = log.finish();
    eprintln!("c17: {} histories", n);
    if faults > 0 {
        std::process::exit(3);
    }
}
