//! C17, guard-page executor: the same pool-machine histories as c17, executed natively with every
//! block the library allocates placed directly against an inaccessible page (behind it, or in front
//! of it with `--front`), and freed blocks kept inaccessible for a while.  A read or write outside the
//! allocation, or through a stale pointer, is then a hardware fault: the process dies with SIGSEGV.
//! (The recording allocator of c17 sees out-of-bounds WRITES when the block is freed, Miri sees
//! everything but only for a few dozen histories; this executor sees out-of-bounds READS as well,
//! for thousands of histories.)
//!
//! Protocol: before a history is executed its case line is written to `<out>.current`; after the last
//! history the file is removed and `<out>` gets one summary line.  A run that dies leaves the
//! offending history in `<out>.current` - the check turns that into the violation and its replay file.
//! The harness judges nothing.
use dashu_verif_harness::common::*;
use serde_json::{json, Value};
use std::io::Write;

#[path = "../c05_pool.rs"]
mod pool;
use pool::*;

mod guard {
    use std::alloc::{GlobalAlloc, Layout, System};
    use std::cell::UnsafeCell;

    const PAGE: usize = 4096;
    const MAX_LIVE: usize = 1 << 13;
    const QUARANTINE: usize = 1 << 11;
    const PROT_NONE: i32 = 0;
    const PROT_RW: i32 = 3;
    const MAP_PRIVATE_ANON: i32 = 0x02 | 0x20;
    extern "C" {
        fn mmap(addr: *mut u8, len: usize, prot: i32, flags: i32, fd: i32, off: i64) -> *mut u8;
        fn mprotect(addr: *mut u8, len: usize, prot: i32) -> i32;
        fn munmap(addr: *mut u8, len: usize) -> i32;
    }
    struct State {
        active: bool,
        front: bool,
        live: [(usize, usize, usize); MAX_LIVE], // (user pointer, mapping base, mapping length)
        nlive: usize,
        quarantine: [(usize, usize); QUARANTINE],
        qhead: usize,
        qlen: usize,
        pub blocks: u64,
    }
    pub struct Guard(UnsafeCell<State>);
    unsafe impl Sync for Guard {}
    #[global_allocator]
    pub static G: Guard = Guard(UnsafeCell::new(State {
        active: false,
        front: false,
        live: [(0, 0, 0); MAX_LIVE],
        nlive: 0,
        quarantine: [(0, 0); QUARANTINE],
        qhead: 0,
        qlen: 0,
        blocks: 0,
    }));
    impl Guard {
        #[allow(clippy::mut_from_ref)]
        fn st(&self) -> &mut State {
            unsafe { &mut *self.0.get() }
        }
        pub fn set_active(&self, on: bool) {
            self.st().active = on;
        }
        pub fn set_front(&self, on: bool) {
            self.st().front = on;
        }
        pub fn blocks(&self) -> u64 {
            self.st().blocks
        }
        unsafe fn guarded_alloc(&self, layout: Layout, zeroed: bool) -> *mut u8 {
            let s = self.st();
            if s.nlive == MAX_LIVE {
                return std::ptr::null_mut();
            }
            let size = layout.size().max(1);
            let body = (size + PAGE - 1) / PAGE * PAGE;
            let total = body + PAGE;
            let base = mmap(std::ptr::null_mut(), total, PROT_RW, MAP_PRIVATE_ANON, -1, 0);
            if base as isize == -1 {
                return std::ptr::null_mut();
            }
            let user = if s.front {
                // [guard page][block ...]
                mprotect(base, PAGE, PROT_NONE);
                base.add(PAGE)
            } else {
                // [... block][guard page]: the block ends at the guard page (up to alignment)
                mprotect(base.add(body), PAGE, PROT_NONE);
                let end = base as usize + body;
                ((end - size) & !(layout.align() - 1)) as *mut u8
            };
            if !zeroed {
                std::ptr::write_bytes(user, 0xCD, size);
            }
            s.live[s.nlive] = (user as usize, base as usize, total);
            s.nlive += 1;
            s.blocks += 1;
            user
        }
        /// releases a guarded block: the whole mapping becomes inaccessible and is unmapped later
        unsafe fn guarded_free(&self, ptr: *mut u8) -> bool {
            let s = self.st();
            for i in 0..s.nlive {
                if s.live[i].0 == ptr as usize {
                    let (_, base, total) = s.live[i];
                    s.live[i] = s.live[s.nlive - 1];
                    s.nlive -= 1;
                    mprotect(base as *mut u8, total, PROT_NONE);
                    if s.qlen == QUARANTINE {
                        let (b, t) = s.quarantine[s.qhead];
                        munmap(b as *mut u8, t);
                        s.qhead = (s.qhead + 1) % QUARANTINE;
                        s.qlen -= 1;
                    }
                    let tail = (s.qhead + s.qlen) % QUARANTINE;
                    s.quarantine[tail] = (base, total);
                    s.qlen += 1;
                    return true;
                }
            }
            false
        }
    }
    unsafe impl GlobalAlloc for Guard {
        unsafe fn alloc(&self, layout: Layout) -> *mut u8 {
            if self.st().active {
                self.guarded_alloc(layout, false)
            } else {
                System.alloc(layout)
            }
        }
        unsafe fn alloc_zeroed(&self, layout: Layout) -> *mut u8 {
            if self.st().active {
                self.guarded_alloc(layout, true)
            } else {
                System.alloc_zeroed(layout)
            }
        }
        unsafe fn dealloc(&self, ptr: *mut u8, layout: Layout) {
            if !self.guarded_free(ptr) {
                System.dealloc(ptr, layout)
            }
        }
        unsafe fn realloc(&self, ptr: *mut u8, layout: Layout, new_size: usize) -> *mut u8 {
            // always moves (a stale pointer into the old block then faults)
            let new_layout = Layout::from_size_align_unchecked(new_size, layout.align());
            let np = self.alloc(new_layout);
            if !np.is_null() {
                std::ptr::copy_nonoverlapping(ptr, np, layout.size().min(new_size));
                self.dealloc(ptr, layout);
            }
            np
        }
    }
}

pub fn ptr_id(_p: usize) -> usize {
    0
}

fn main() {
    let args = &start();
    let mut rng = Rng::new(args.seed);
    guard::G.set_front(args.extra.iter().any(|x| x == "--front"));
    let cur_path = format!("{}.current", args.out);
    let mut window = |f: &mut dyn FnMut()| -> Value {
        guard::G.set_active(true);
        f();
        guard::G.set_active(false);
        json!([])
    };
    let mut done = 0u64;
    let mut faults = 0u64;
    let mut run = |case: &Value, done: &mut u64, faults: &mut u64| {
        {
            let mut f = std::fs::File::create(&cur_path).expect("create .current");
            f.write_all(case.to_string().as_bytes()).unwrap();
            f.write_all(b"\n").unwrap();
            f.sync_all().ok();
        }
        let ev = run_history_opt(case, &mut window, true);
        if ev.get("fault").is_some() {
            *faults += 1;
            eprintln!("c17g: harness fault in case {}", case);
        }
        *done += 1;
    };
    if let Some(path) = &args.cases {
        for c in read_cases(path) {
            let case = json!({"pool": c["pool"], "nr": c["nr"], "steps": c["steps"]});
            run(&case, &mut done, &mut faults);
        }
    }
    let len = args.extra.iter().position(|x| x == "--len").map(|i| args.extra[i + 1].parse().unwrap()).unwrap_or(16usize);
    for i in 0..args.n {
        let kind = if i % 2 == 0 { "U" } else { "I" };
        let nr = 3 + rng.below(3) as usize;
        let mut case = gen_int_history(&mut rng, kind, nr, len, args.max_words);
        if i % 2 == 0 {
            // storage-relative probes (see add_probes): the dry run is unguarded
            let mut quiet = |f: &mut dyn FnMut()| -> Value {
                f();
                json!([])
            };
            let dry = run_history_opt(&case, &mut quiet, true);
            add_probes(&mut case, &mut rng, kind, &dry["fin"]["t"]);
        }
        run(&case, &mut done, &mut faults);
    }
    let _ = std::fs::remove_file(&cur_path);
    let mut log = Log::create(&args.out);
    log.ev(json!({"prop": "C17", "op": "guard-summary", "histories": done, "guarded_blocks": guard::G.blocks(),
        "front": args.extra.iter().any(|x| x == "--front")}));
    log.finish();
    eprintln!("c17g: {} histories, {} guarded blocks", done, guard::G.blocks());
    if faults > 0 {
        std::process::exit(3);
    }
}
