//! C13: ConstDivisor / Reduced ring arithmetic (and the num_modular::Reducer impl of ConstDivisor)
//! in every call form.  No oracle: operands from bytes, residues written back as bytes.
//!
//! Case:  {"op": "reduce"|"add"|"sub"|"mul"|"div"|"neg"|"dbl"|"sqr"|"pow"|"inv"|"mix",
//!         "m": int (>= 1), "a": int, "b": int, "e": int (>= 0), "m2": int (mix only)}
//! Event: the case + "outs": [{forms, out}] with out.v = {"r": int [, "mod": int]}  (inv: {"some", "x"})
//!        + "hint": {"g": gcd(residue, m) as computed by UBig::gcd, "binv": {"some", "x"}}  (untrusted)
use dashu_base::Gcd;
use dashu_int::fast_div::ConstDivisor;
use dashu_int::modular::Reduced;
use dashu_int::{IBig, Sign, UBig};
use dashu_verif_harness::common::*;
use dashu_verif_harness::forms::*;
use num_modular::Reducer;
use serde_json::{json, Value};

fn is_neg(x: &IBig) -> bool {
    x.as_sign_words().0 == Sign::Negative && !x.as_sign_words().1.is_empty()
}
fn mag(x: &IBig) -> UBig {
    ubig_from_bytes(&words_to_bytes(x.as_sign_words().1))
}
fn res(x: &Reduced) -> Value {
    json!({"r": enc_u(&x.residue())})
}
fn res_mod(x: &Reduced) -> Value {
    json!({"r": enc_u(&x.residue()), "mod": enc_u(&x.modulus())})
}
fn opt(x: &Option<Reduced>) -> Value {
    match x {
        Some(v) => json!({"some": 1, "x": enc_u(&v.residue())}),
        None => json!({"some": 0, "x": enc_u(&UBig::ZERO)}),
    }
}

macro_rules! reduce_uprim {
    ($t:ty, $p:expr, $outs:expr, $ring:expr) => {{
        let p: $t = $p;
        $outs.push(stringify!($t), guarded(|| res_mod(&$ring.reduce(p))));
    }};
}
macro_rules! for_uprims {
    ($v:expr, $body:ident, $($args:tt)*) => {{
        let v: u128 = $v;
        if v <= u8::MAX as u128 { $body!(u8, v as u8, $($args)*); }
        if v <= u16::MAX as u128 { $body!(u16, v as u16, $($args)*); }
        if v <= u32::MAX as u128 { $body!(u32, v as u32, $($args)*); }
        if v <= u64::MAX as u128 { $body!(u64, v as u64, $($args)*); }
        if v <= usize::MAX as u128 { $body!(usize, v as usize, $($args)*); }
        $body!(u128, v, $($args)*);
    }};
}
macro_rules! for_iprims {
    ($v:expr, $body:ident, $($args:tt)*) => {{
        let v: i128 = $v;
        if v >= i8::MIN as i128 && v <= i8::MAX as i128 { $body!(i8, v as i8, $($args)*); }
        if v >= i16::MIN as i128 && v <= i16::MAX as i128 { $body!(i16, v as i16, $($args)*); }
        if v >= i32::MIN as i128 && v <= i32::MAX as i128 { $body!(i32, v as i32, $($args)*); }
        if v >= i64::MIN as i128 && v <= i64::MAX as i128 { $body!(i64, v as i64, $($args)*); }
        if v >= isize::MIN as i128 && v <= isize::MAX as i128 { $body!(isize, v as isize, $($args)*); }
        $body!(i128, v, $($args)*);
    }};
}

macro_rules! binop_forms {
    ($outs:expr, $ring:expr, $a:expr, $b:expr, $op:tt, $opa:tt) => {{
        let (ring, a, b) = ($ring, $a, $b);
        $outs.push("vv", guarded(|| res(&(ring.reduce(a.clone()) $op ring.reduce(b.clone())))));
        $outs.push("vr", guarded(|| { let y = ring.reduce(b.clone()); res(&(ring.reduce(a.clone()) $op &y)) }));
        $outs.push("rv", guarded(|| { let x = ring.reduce(a.clone()); res(&(&x $op ring.reduce(b.clone()))) }));
        $outs.push("rr", guarded(|| { let (x, y) = (ring.reduce(a.clone()), ring.reduce(b.clone())); res(&(&x $op &y)) }));
        $outs.push("av", guarded(|| { let mut x = ring.reduce(a.clone()); x $opa ring.reduce(b.clone()); res(&x) }));
        $outs.push("ar", guarded(|| { let mut x = ring.reduce(a.clone()); let y = ring.reduce(b.clone()); x $opa &y; res(&x) }));
    }};
}

/// a library panic outside the guarded forms (building the ring, computing a hint) must not take the driver down:
/// the case is then logged with one panicking form
fn run_case(log: &mut Log, op: &str, m: &UBig, a: &IBig, b: &IBig, e: &UBig, m2: &UBig, src: &str) {
    let r = guarded(|| {
        let mut sink: Vec<Value> = Vec::new();
        run_case_inner(&mut sink, op, m, a, b, e, m2, src);
        sink
    });
    match r {
        Ok(evs) => {
            for ev in evs {
                log.ev(ev);
            }
        }
        Err(msg) => {
            let mut outs = Outs::new();
            outs.push("driver", Err(msg));
            let mut ev = json!({"prop": "C13", "op": op, "src": src, "m": enc_u(m), "a": enc_i(a), "b": enc_i(b), "e": enc_u(e)});
            if op == "mix" || op == "clonefrom" {
                ev["m2"] = enc_u(m2);
            }
            ev["outs"] = outs.grouped();
            log.ev(ev);
        }
    }
}
fn run_case_inner(log: &mut Vec<Value>, op: &str, m: &UBig, a: &IBig, b: &IBig, e: &UBig, m2: &UBig, src: &str) {
    let mut outs = Outs::new();
    let mut ev = json!({"prop": "C13", "op": op, "src": src, "m": enc_u(m), "a": enc_i(a), "b": enc_i(b), "e": enc_u(e)});
    if op == "clonefrom" {
        // x (ring of m) is overwritten by y (ring of m2, another ConstDivisor instance): afterwards x IS y - residue,
        // modulus, and membership of y's ring (it can be added to an element of that ring)
        ev["m2"] = enc_u(m2);
        let (r1, r2) = (ConstDivisor::new(m.clone()), ConstDivisor::new(m2.clone()));
        let (r1, r2) = (&r1, &r2);
        outs.push("cf", guarded(|| { let mut x = r1.reduce(a.clone()); let y = r2.reduce(b.clone()); x.clone_from(&y); res_mod(&x) }));
        outs.push("clone", guarded(|| { let y = r2.reduce(b.clone()); res_mod(&y.clone()) }));
        outs.push("cf+1", guarded(|| { let mut x = r1.reduce(a.clone()); let y = r2.reduce(b.clone()); x.clone_from(&y); res(&(x + r2.reduce(1u8))) }));
        outs.push("cf==", guarded(|| { let mut x = r1.reduce(a.clone()); let y = r2.reduce(b.clone()); x.clone_from(&y);
            json!({"r": enc_u(&ubig_from_bytes(&[(x == y) as u8]))}) }));
        ev["outs"] = outs.grouped();
        log.push(ev);
        return;
    }
    if op == "mix" {
        // two ConstDivisor instances (same or different modulus): every binary operation must panic
        ev["m2"] = enc_u(m2);
        let (r1, r2) = (ConstDivisor::new(m.clone()), ConstDivisor::new(m2.clone()));
        let (r1, r2) = (&r1, &r2);
        outs.push("add", guarded(|| res(&(r1.reduce(a.clone()) + r2.reduce(b.clone())))));
        outs.push("add_rr", guarded(|| { let (x, y) = (r1.reduce(a.clone()), r2.reduce(b.clone())); res(&(&x + &y)) }));
        outs.push("sub", guarded(|| res(&(r1.reduce(a.clone()) - r2.reduce(b.clone())))));
        outs.push("sub_rv", guarded(|| { let x = r1.reduce(a.clone()); res(&(&x - r2.reduce(b.clone()))) }));
        outs.push("mul", guarded(|| res(&(r1.reduce(a.clone()) * r2.reduce(b.clone())))));
        outs.push("div", guarded(|| res(&(r1.reduce(a.clone()) / r2.reduce(b.clone())))));
        outs.push("add_assign", guarded(|| { let mut x = r1.reduce(a.clone()); x += r2.reduce(b.clone()); res(&x) }));
        outs.push("sub_assign", guarded(|| { let mut x = r1.reduce(a.clone()); x -= r2.reduce(b.clone()); res(&x) }));
        outs.push("mul_assign", guarded(|| { let mut x = r1.reduce(a.clone()); x *= r2.reduce(b.clone()); res(&x) }));
        outs.push("div_assign", guarded(|| { let mut x = r1.reduce(a.clone()); x /= r2.reduce(b.clone()); res(&x) }));
        outs.push("eq", guarded(|| json!({"r": enc_u(&ubig_from_bytes(&[(r1.reduce(a.clone()) == r2.reduce(b.clone())) as u8]))})));
        ev["outs"] = outs.grouped();
        log.push(ev);
        return;
    }
    let ring = ConstDivisor::new(m.clone());
    let ring = &ring;
    let nonneg = !is_neg(a) && !is_neg(b);
    let (ua, ub) = (mag(a), mag(b));
    match op {
        "reduce" => {
            outs.push("ibig", guarded(|| res_mod(&ring.reduce(a.clone()))));
            if !is_neg(a) {
                outs.push("ubig", guarded(|| res_mod(&ring.reduce(ua.clone()))));
                if let Some(v) = small_mag(&words_to_bytes(a.as_sign_words().1)) {
                    for_uprims!(v, reduce_uprim, outs, ring);
                    if v <= 1 {
                        outs.push("bool", guarded(|| res_mod(&ring.reduce(v == 1))));
                    }
                }
                outs.push("R.transform", guarded(|| json!({"r": enc_u(&Reducer::residue(ring, Reducer::transform(ring, ua.clone()))),
                    "mod": enc_u(&Reducer::modulus(ring))})));
            }
            if let Some(v) = small_signed(is_neg(a), &words_to_bytes(a.as_sign_words().1)) {
                for_iprims!(v, reduce_uprim, outs, ring);
            }
        }
        "add" => {
            binop_forms!(outs, ring, a, b, +, +=);
            if nonneg {
                outs.push("R.add", guarded(|| json!({"r": enc_u(&Reducer::residue(ring,
                    Reducer::add(ring, &Reducer::transform(ring, ua.clone()), &Reducer::transform(ring, ub.clone()))))})));
            }
        }
        "sub" => {
            binop_forms!(outs, ring, a, b, -, -=);
            if nonneg {
                outs.push("R.sub", guarded(|| json!({"r": enc_u(&Reducer::residue(ring,
                    Reducer::sub(ring, &Reducer::transform(ring, ua.clone()), &Reducer::transform(ring, ub.clone()))))})));
            }
        }
        "mul" => {
            binop_forms!(outs, ring, a, b, *, *=);
            if nonneg {
                outs.push("R.mul", guarded(|| json!({"r": enc_u(&Reducer::residue(ring,
                    Reducer::mul(ring, &Reducer::transform(ring, ua.clone()), &Reducer::transform(ring, ub.clone()))))})));
            }
        }
        "div" => {
            binop_forms!(outs, ring, a, b, /, /=);
            // the hints are computed under the same guard as the forms: a library panic is data, not a driver crash
            let g = guarded(|| Gcd::gcd(ring.reduce(b.clone()).residue(), m.clone())).unwrap_or(UBig::ZERO);
            let binv = guarded(|| opt(&ring.reduce(b.clone()).inv())).unwrap_or(json!({"some": 0, "x": enc_u(&UBig::ZERO)}));
            ev["hint"] = json!({"g": enc_u(&g), "binv": binv});
        }
        "neg" => {
            outs.push("v", guarded(|| res(&(-ring.reduce(a.clone())))));
            outs.push("r", guarded(|| { let x = ring.reduce(a.clone()); res(&(-&x)) }));
            if nonneg {
                outs.push("R.neg", guarded(|| json!({"r": enc_u(&Reducer::residue(ring, Reducer::neg(ring, Reducer::transform(ring, ua.clone()))))})));
            }
        }
        "dbl" => {
            outs.push("dbl", guarded(|| res(&ring.reduce(a.clone()).dbl())));
            outs.push("x+x", guarded(|| { let x = ring.reduce(a.clone()); res(&(&x + &x)) }));
            if nonneg {
                outs.push("R.dbl", guarded(|| json!({"r": enc_u(&Reducer::residue(ring, Reducer::dbl(ring, Reducer::transform(ring, ua.clone()))))})));
            }
        }
        "sqr" => {
            outs.push("sqr", guarded(|| res(&ring.reduce(a.clone()).sqr())));
            outs.push("x*x", guarded(|| { let x = ring.reduce(a.clone()); res(&(&x * &x)) }));
            outs.push("x*=x", guarded(|| { let mut x = ring.reduce(a.clone()); let y = x.clone(); x *= y; res(&x) }));
            if nonneg {
                outs.push("R.sqr", guarded(|| json!({"r": enc_u(&Reducer::residue(ring, Reducer::sqr(ring, Reducer::transform(ring, ua.clone()))))})));
            }
        }
        "pow" => {
            outs.push("pow", guarded(|| res(&ring.reduce(a.clone()).pow(e))));
            if nonneg {
                outs.push("R.pow", guarded(|| json!({"r": enc_u(&Reducer::residue(ring, Reducer::pow(ring, Reducer::transform(ring, ua.clone()), e)))})));
            }
        }
        "inv" => {
            outs.push("inv", guarded(|| opt(&ring.reduce(a.clone()).inv())));
            if nonneg {
                outs.push("R.inv", guarded(|| match Reducer::inv(ring, Reducer::transform(ring, ua.clone())) {
                    Some(v) => json!({"some": 1, "x": enc_u(&Reducer::residue(ring, v))}),
                    None => json!({"some": 0, "x": enc_u(&UBig::ZERO)}),
                }));
            }
            let g = guarded(|| Gcd::gcd(ring.reduce(a.clone()).residue(), m.clone())).unwrap_or(UBig::ZERO);
            ev["hint"] = json!({"g": enc_u(&g)});
        }
        other => panic!("unknown op {}", other),
    }
    ev["outs"] = outs.grouped();
    log.push(ev);
}

// ---------------------------------------------------------------- seeded random driver
fn random_modulus(rng: &mut Rng, max_words: usize) -> UBig {
    let one = ubig_from_bytes(&[1]);
    match rng.below(12) {
        0 => one,
        1 => ubig_from_bytes(&[2]),
        2 => &one << (rng.below(64) as usize),                         // power of two, one word
        3 => &one << (64 + rng.below(200) as usize),                   // power of two, more words
        4 => ubig_from_bytes(&pattern_bytes(rng, 8, 0)) | &one,        // odd word, random shift 0
        5 => { let nb = 1 + rng.below(8) as usize; ubig_from_bytes(&pattern_bytes(rng, nb, 0)) }   // word with a normalisation shift
        6 => ubig_from_bytes(&pattern_bytes(rng, 16, 0)),              // double word, top bit random
        7 => { let nb = 9 + rng.below(7) as usize; ubig_from_bytes(&pattern_bytes(rng, nb, 0)) }   // double word with shift
        8 => ubig_from_bytes(&[0xff; 8]),                               // word max
        _ => {
            let w = 3 + rng.below((max_words.max(4) - 2) as u64) as usize;
            let slack = if rng.coin() { 0 } else { rng.below(8) as usize };
            let pat = rng.next();
            ubig_from_bytes(&pattern_bytes(rng, w * 8 - slack, pat))
        }
    }
}
fn random_operand(rng: &mut Rng, m: &UBig, max_words: usize) -> IBig {
    let mi = IBig::from(m.clone());
    let x = match rng.below(10) {
        0 => IBig::from(0),
        1 => IBig::from(1),
        2 => &mi - IBig::from(1),
        3 => mi.clone(),
        4 => &mi + IBig::from(1),
        5 => random_ibig(rng, 1),
        6 => &mi * random_ibig(rng, 2) + random_ibig(rng, 1),
        _ => random_ibig(rng, max_words),
    };
    if rng.below(4) == 0 { -x } else { x }
}
fn random_driver(log: &mut Log, rng: &mut Rng, n: u64, max_words: usize) {
    const OPS: &[&str] = &["reduce", "add", "add", "sub", "sub", "mul", "mul", "div", "neg", "dbl", "sqr", "pow", "pow", "inv", "inv", "mix", "clonefrom"];
    for _ in 0..n {
        let op = *rng.pick(OPS);
        let m = random_modulus(rng, max_words);
        let mw = m.as_words().len().max(1);
        let a = random_operand(rng, &m, max_words);
        let mut b = random_operand(rng, &m, max_words);
        match rng.below(8) {
            0 => b = IBig::from(m.clone()) - &a,          // a + b = m: the conditional subtraction boundary
            1 => b = a.clone(),
            2 => b = -a.clone(),
            _ => {}
        }
        // exponent 0 .. 3 words; the monitor replays square-and-multiply, so large moduli get short exponents
        let ebits = if mw <= 2 { 192 } else if mw <= 6 { 96 } else { 20 };
        let e = match rng.below(6) {
            0 => ubig_from_bytes(&[rng.below(4) as u8]),
            1 => ubig_from_bytes(&pattern_bytes(rng, 8, 1)) >> (64usize.saturating_sub(ebits.min(64))),
            _ => {
                let nb = 1 + rng.below((ebits / 8) as u64) as usize;
                ubig_from_bytes(&pattern_bytes(rng, nb, 0))
            }
        };
        let m2 = if rng.coin() { m.clone() } else { random_modulus(rng, max_words) };
        run_case(log, op, &m, &a, &b, &e, &m2, "rnd");
    }
}

fn main() {
    let args = &start();
    let mut log = Log::create(&args.out);
    let mut rng = Rng::new(args.seed);
    if let Some(path) = &args.cases {
        for c in read_cases(path) {
            let src = match (c["fam"].as_str(), c["src"].as_str()) {
                (Some(f), _) => format!("gen:{}", f),
                (None, Some(s)) => s.to_string(),
                _ => "case".to_string(),
            };
            let z = json!({"s": 0, "m": []});
            let get = |k: &str| if c[k].is_object() { c[k].clone() } else { z.clone() };
            let m = dec_u(&c["m"]);
            let m2 = if c["m2"].is_object() { dec_u(&c["m2"]) } else { m.clone() };
            run_case(&mut log, c["op"].as_str().unwrap(), &m, &dec_i(&get("a")), &dec_i(&get("b")), &dec_u(&get("e")), &m2, &src);
        }
    }
    random_driver(&mut log, &mut rng, args.n, args.max_words);
    // --invfam K: the case analysis of ModInvAlg (inverse in a ring with a large modulus) on real operands: an element a of 1, 2,
    // 3.. words and a modulus m = k a + delta with delta = 1 (the word-sized extended gcd returns s = 0: the sign of the cofactor
    // comes from t), a - 1, 0 (a divides m: no inverse), 2, or anything below a
    if let Some(i) = args.extra.iter().position(|x| x == "--invfam") {
        let k: u64 = args.extra[i + 1].parse().unwrap();
        for j in 0..k {
            let aw = 1 + (j % 4) as usize;
            let pat = if j % 3 == 0 { rng.next() } else { 0 };
            let a = ubig_from_bytes(&pattern_bytes(&mut rng, 8 * aw, pat)) + UBig::from(2u8);
            let kw = 3 + rng.below(3) as usize;
            let kk = ubig_from_bytes(&pattern_bytes(&mut rng, 8 * kw, 0)) + UBig::ONE;
            let delta = match (j / 4) % 5 {
                0 => UBig::ONE,
                1 => &a - UBig::ONE,
                2 => UBig::ZERO,
                3 => UBig::from(2u8),
                _ => ubig_from_bytes(&pattern_bytes(&mut rng, 8 * aw, 0)) % &a,
            };
            let m = &kk * &a + delta;
            let b = random_operand(&mut rng, &m, args.max_words);
            let (ai, z) = (IBig::from(a), UBig::ZERO);
            run_case(&mut log, "inv", &m, &ai, &b, &z, &m, "invfam");
            run_case(&mut log, "div", &m, &b, &ai, &z, &m, "invfam");
        }
    }
    let n = log.finish();
    eprintln!("c13: {} events", n);
}
