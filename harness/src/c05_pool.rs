//! Pool machine shared by the C05 and C17 drivers (included with #[path]; not part of the lib).
//!
//! A *history* is a case object
//!   {"pool": "U" | "I" | "F" | "Q", "nr": registers, "steps": [{"op", "d", "a", "b", "n", "f", "c"}]}
//! executed on a fresh pool (every register zero).  After every step the harness records what the
//! library says about the destination register against every register (==, reversed ==, cmp,
//! reversed cmp), the hashes of all registers, the hook triples, and the same against "twins":
//! the same value rebuilt from its logged bytes through another constructor.  Nothing is judged here.
#![allow(dead_code)]
use dashu_base::{Abs, Inverse};
use dashu_float::round::mode;
use dashu_float::FBig;
use dashu_int::{IBig, Sign, UBig, Word};
use dashu_ratio::{RBig, Relaxed};
use dashu_verif_harness::common::*;
use dashu_verif_harness::fwire::*;
use serde_json::{json, Value};
use std::cmp::Ordering;
use std::collections::hash_map::DefaultHasher;
use std::hash::{Hash, Hasher};
use std::mem::ManuallyDrop;

pub const NA: i64 = 2; // comparison not available for this pair of registers

pub fn h64<T: Hash>(x: &T) -> Value {
    let mut h = DefaultHasher::new();
    x.hash(&mut h);
    json!(h.finish().to_le_bytes().to_vec())
}
pub fn ord(o: Ordering) -> i64 {
    match o {
        Ordering::Less => -1,
        Ordering::Equal => 0,
        Ordering::Greater => 1,
    }
}
pub fn pord(o: Option<Ordering>) -> i64 {
    o.map(ord).unwrap_or(3)
}
fn us(v: &Value, k: &str) -> usize {
    v[k].as_u64().unwrap_or(0) as usize
}
fn st<'a>(v: &'a Value, k: &str) -> &'a str {
    v[k].as_str().unwrap_or("")
}
fn bytes_of(v: &Value) -> Vec<u8> {
    v["m"].as_array().map(|a| a.iter().map(|b| b.as_u64().unwrap() as u8).collect()).unwrap_or_default()
}

/// hook triple with the raw data pointer (0 when inline); the caller maps it to a block identity
#[cfg(dashu_verif)]
pub fn triple(t: (bool, usize, usize, bool, usize), stat: bool) -> Value {
    json!({"neg": t.0, "cap": t.1, "len": t.2, "heap": t.3, "ptr": (crate::ptr_id)(t.4), "st": stat})
}
#[cfg(not(dashu_verif))]
pub fn triple(_t: (bool, usize, usize, bool, usize), _stat: bool) -> Value {
    Value::Null
}

// words for from_static_words: every prefix has a non-zero top word
pub static STATIC_WORDS: [Word; 12] = [1, 2, 3, 4, 5, 6, 7, 8, 9, 10, 11, 12];
pub static STATIC_ONES: [Word; 12] = [Word::MAX; 12];
fn static_slice(n: usize, pat: usize) -> &'static [Word] {
    let n = n.min(12);
    if pat == 1 {
        &STATIC_ONES[..n]
    } else {
        &STATIC_WORDS[..n]
    }
}

macro_rules! binop {
    ($op:expr, $x:expr, $y:expr) => {
        match $op {
            "add" => $x + $y,
            "sub" => $x - $y,
            "mul" => $x * $y,
            "div" => $x / $y,
            "rem" => $x % $y,
            "and" => $x & $y,
            "or" => $x | $y,
            "xor" => $x ^ $y,
            o => panic!("harness: unknown binary op {}", o),
        }
    };
}
macro_rules! asgop {
    ($op:expr, $x:expr, $y:expr) => {
        match $op {
            "add" => *$x += $y,
            "sub" => *$x -= $y,
            "mul" => *$x *= $y,
            "div" => *$x /= $y,
            "rem" => *$x %= $y,
            "and" => *$x &= $y,
            "or" => *$x |= $y,
            "xor" => *$x ^= $y,
            o => panic!("harness: unknown assign op {}", o),
        }
    };
}
macro_rules! binop4 {
    ($op:expr, $x:expr, $y:expr) => {
        match $op {
            "add" => $x + $y,
            "sub" => $x - $y,
            "mul" => $x * $y,
            "div" => $x / $y,
            o => panic!("harness: unknown binary op {}", o),
        }
    };
}
macro_rules! asgop4 {
    ($op:expr, $x:expr, $y:expr) => {
        match $op {
            "add" => *$x += $y,
            "sub" => *$x -= $y,
            "mul" => *$x *= $y,
            "div" => *$x /= $y,
            o => panic!("harness: unknown assign op {}", o),
        }
    };
}

/// constant described by (w = words, pat = pattern number, salt, s = sign) instead of bytes: keeps
/// generated case files small; the bytes are logged with the step like any other value
pub fn compact_const(s: &Value) -> Value {
    let w = us(s, "w");
    let mut rng = Rng::new(us(s, "salt") as u64 + 1);
    let bytes = pattern_bytes(&mut rng, w * WORD_BYTES, us(s, "pat") as u64);
    json!({"s": if us(s, "s") == 1 && !bytes.is_empty() { 1 } else { 0 }, "m": bytes})
}
fn push_num(out: &mut String, mut n: u64) {
    if n == 0 {
        out.push('0');
        return;
    }
    let mut buf = [0u8; 20];
    let mut i = 20;
    while n > 0 {
        i -= 1;
        buf[i] = b'0' + (n % 10) as u8;
        n /= 10;
    }
    for b in &buf[i..] {
        out.push(*b as char);
    }
}
/// hand-written JSON of an integer value and its hook triple (fast path of the Miri runs)
pub fn push_int_obs(out: &mut String, neg: bool, words: &[Word], t: (bool, usize, usize, bool, usize), stat: bool) {
    out.push_str("\"v\":{\"s\":");
    out.push(if neg { '1' } else { '0' });
    out.push_str(",\"m\":[");
    let bytes = words_to_bytes(words);
    for (i, b) in bytes.iter().enumerate() {
        if i > 0 {
            out.push(',');
        }
        push_num(out, *b as u64);
    }
    out.push_str("]},\"t\":[{\"neg\":");
    out.push_str(if t.0 { "true" } else { "false" });
    out.push_str(",\"cap\":");
    push_num(out, t.1 as u64);
    out.push_str(",\"len\":");
    push_num(out, t.2 as u64);
    out.push_str(",\"heap\":");
    out.push_str(if t.3 { "true" } else { "false" });
    out.push_str(",\"ptr\":");
    push_num(out, (crate::ptr_id)(t.4) as u64);
    out.push_str(",\"st\":");
    out.push_str(if stat { "true" } else { "false" });
    out.push_str("}]");
}

pub trait Pool {
    /// appends `"v":{..},"t":[..]` of register d as text
    fn obs_text(&self, _d: usize, _out: &mut String) {
        panic!("harness: text observations exist for the integer pools only")
    }
    fn nr(&self) -> usize;
    /// executes one producer; panics of the library propagate to the caller's `guarded`
    fn exec(&mut self, s: &Value);
    /// observations about register d (1-based) after a step
    fn obs(&self, d: usize) -> Value;
    /// full observation of the pool
    fn fin(&self) -> Value;
    /// value and hook triples only
    fn obs_lite(&self, d: usize) -> Value {
        let o = self.obs(d);
        json!({"v": o["v"], "t": o["t"]})
    }
    fn fin_lite(&self) -> Value {
        let o = self.fin();
        json!({"v": o["v"], "t": o["t"]})
    }
    /// drop every register (end of the history)
    fn clear(&mut self);
}

// ------------------------------------------------------------------------------------------
// integer pools
// ------------------------------------------------------------------------------------------
pub enum Reg<T> {
    Own(T),
    Stat(ManuallyDrop<T>), // built by from_static_words: never mutated, never dropped
}
impl<T> Reg<T> {
    pub fn get(&self) -> &T {
        match self {
            Reg::Own(x) => x,
            Reg::Stat(x) => x,
        }
    }
    pub fn is_static(&self) -> bool {
        matches!(self, Reg::Stat(_))
    }
}

macro_rules! int_pool {
    ($Pool:ident, $T:ty, $is_signed:tt) => {
        pub struct $Pool {
            pub regs: Vec<Reg<$T>>,
        }
        impl $Pool {
            pub fn new(nr: usize) -> Self {
                $Pool { regs: (0..nr).map(|_| Reg::Own(<$T>::ZERO)).collect() }
            }
            fn val(&self, i: usize) -> &$T {
                self.regs[i - 1].get()
            }
            /// operand by value: moved out of the register iff it is the (owned) destination and the other
            /// operand is a different register, else cloned
            fn by_value(&mut self, i: usize, d: usize, other: usize) -> $T {
                if i == d && i != other && !self.regs[i - 1].is_static() {
                    match &mut self.regs[i - 1] {
                        Reg::Own(x) => std::mem::take(x),
                        _ => unreachable!(),
                    }
                } else {
                    self.val(i).clone()
                }
            }
            fn set(&mut self, d: usize, v: $T) {
                self.regs[d - 1] = Reg::Own(v);
            }
            /// makes register d an owned copy of register a (no-op if a == d and owned)
            fn own_copy(&mut self, d: usize, a: usize) {
                if a != d || self.regs[d - 1].is_static() {
                    let c = self.val(a).clone();
                    self.set(d, c);
                }
            }
            fn own_mut(&mut self, d: usize) -> &mut $T {
                match &mut self.regs[d - 1] {
                    Reg::Own(x) => x,
                    _ => panic!("harness: static register used as in-place destination"),
                }
            }
            fn enc(x: &$T) -> Value {
                int_enc!($is_signed, x)
            }
            fn tri(&self, i: usize) -> Value {
                #[cfg(dashu_verif)]
                {
                    triple(self.val(i).verif_repr(), self.regs[i - 1].is_static())
                }
                #[cfg(not(dashu_verif))]
                {
                    Value::Null
                }
            }
            fn twins(x: &$T) -> Vec<$T> {
                int_twins!($is_signed, x)
            }
        }
        impl Pool for $Pool {
            fn nr(&self) -> usize {
                self.regs.len()
            }
            fn exec(&mut self, s: &Value) {
                let (op, d, a, b, n, f) = (st(s, "op"), us(s, "d"), us(s, "a"), us(s, "b"), us(s, "n"), st(s, "f"));
                match op {
                    "const" => {
                        // either explicit bytes "c" or a compact description (w words, pattern, salt)
                        let c = if s.get("c").is_some() { s["c"].clone() } else { compact_const(s) };
                        let v = int_const!($is_signed, &c, f);
                        self.set(d, v);
                    }
                    "static" => {
                        let words = static_slice(n, us(s, "b"));
                        // SAFETY (contract of from_static_words): the value is kept in ManuallyDrop, never mutated
                        let v = int_static!($is_signed, words, f == "neg");
                        self.regs[d - 1] = Reg::Stat(ManuallyDrop::new(v));
                    }
                    "ones" => {
                        let v = <$T>::from(UBig::ones(n));
                        self.set(d, v);
                    }
                    "add" | "sub" | "mul" | "div" | "rem" | "and" | "or" | "xor" => match f {
                        "rr" => {
                            let r = binop!(op, self.val(a), self.val(b));
                            self.set(d, r);
                        }
                        "vr" => {
                            let x = self.by_value(a, d, b);
                            let r = binop!(op, x, self.val(b));
                            self.set(d, r);
                        }
                        "rv" => {
                            let y = self.by_value(b, d, a);
                            let r = binop!(op, self.val(a), y);
                            self.set(d, r);
                        }
                        "vv" => {
                            let x = self.by_value(a, d, b);
                            let y = self.by_value(b, d, a);
                            let r = binop!(op, x, y);
                            self.set(d, r);
                        }
                        "ar" => {
                            // x op= &y ; with y == x this is the self-assignment pattern x op= &x.clone()
                            let y = self.val(b).clone();
                            self.own_copy(d, a);
                            let x = self.own_mut(d);
                            asgop!(op, x, &y);
                        }
                        "av" => {
                            let y = self.val(b).clone();
                            self.own_copy(d, a);
                            let x = self.own_mut(d);
                            asgop!(op, x, y);
                        }
                        "ap" => {
                            // x op= &y without an intermediate clone of y (y must be another register)
                            if b == d {
                                let y = self.val(b).clone();
                                self.own_copy(d, a);
                                let x = self.own_mut(d);
                                asgop!(op, x, &y);
                            } else {
                                self.own_copy(d, a);
                                let (lo, hi) = self.regs.split_at_mut(d.max(b) - 1);
                                let (x, y) = if d < b { (&mut lo[d - 1], &hi[0]) } else { (&mut hi[0], &lo[b - 1]) };
                                let x = match x {
                                    Reg::Own(x) => x,
                                    _ => panic!("harness: static destination"),
                                };
                                asgop!(op, x, y.get());
                            }
                        }
                        o => panic!("harness: unknown form {}", o),
                    },
                    "shl" | "shr" => {
                        let left = op == "shl";
                        match f {
                            "r" => {
                                let r = if left { self.val(a) << n } else { self.val(a) >> n };
                                self.set(d, r);
                            }
                            "a" => {
                                self.own_copy(d, a);
                                let x = self.own_mut(d);
                                if left {
                                    *x <<= n
                                } else {
                                    *x >>= n
                                }
                            }
                            _ => {
                                let x = self.by_value(a, d, 0);
                                let r = if left { x << n } else { x >> n };
                                self.set(d, r);
                            }
                        }
                    }
                    "sqr" => {
                        let r = self.val(a) * self.val(a);
                        self.set(d, r);
                    }
                    "clone" => {
                        let r = self.val(a).clone();
                        self.set(d, r);
                    }
                    "clonefrom" => {
                        // a destination built from static words must not be written to: it is replaced by an
                        // owned zero first (the static value itself stays untouched)
                        if a == d {
                            // x.clone_from(&x.clone())
                            let t = self.val(a).clone();
                            if self.regs[d - 1].is_static() {
                                self.set(d, <$T>::ZERO);
                            }
                            self.own_mut(d).clone_from(&t);
                        } else {
                            if self.regs[d - 1].is_static() {
                                self.set(d, <$T>::ZERO);
                            }
                            let (lo, hi) = self.regs.split_at_mut(d.max(a) - 1);
                            let (x, y) = if d < a { (&mut lo[d - 1], &hi[0]) } else { (&mut hi[0], &lo[a - 1]) };
                            match x {
                                Reg::Own(x) => x.clone_from(y.get()),
                                _ => unreachable!(),
                            }
                        }
                    }
                    "rewords" => {
                        let r = int_rewords!($is_signed, self.val(a));
                        self.set(d, r);
                    }
                    "rebytes" => {
                        let r = int_rebytes!($is_signed, self.val(a), f);
                        self.set(d, r);
                    }
                    "via" => {
                        let r = int_via!($is_signed, self.val(a));
                        self.set(d, r);
                    }
                    "drop" => self.set(d, <$T>::ZERO),
                    _ => {
                        int_special!($is_signed, self, op, d, a, n, f);
                    }
                }
            }
            fn obs(&self, d: usize) -> Value {
                let x = self.val(d);
                let nr = self.nr();
                let mut o = json!({
                    "v": Self::enc(x), "t": [self.tri(d)],
                    "eq": (1..=nr).map(|r| (x == self.val(r)) as i64).collect::<Vec<_>>(),
                    "qe": (1..=nr).map(|r| (self.val(r) == x) as i64).collect::<Vec<_>>(),
                    "cmp": (1..=nr).map(|r| ord(x.cmp(self.val(r)))).collect::<Vec<_>>(),
                    "pmc": (1..=nr).map(|r| ord(self.val(r).cmp(x))).collect::<Vec<_>>(),
                    "h": h64(x),
                });
                let tw: Vec<Value> = Self::twins(x)
                    .iter()
                    .map(|t| {
                        // the twin is rebuilt from the logged bytes of x: its value is "v" of the step
                        json!({"eq": (x == t) as i64, "qe": (t == x) as i64, "cmp": ord(x.cmp(t)),
                            "pmc": ord(t.cmp(x)), "pcmp": pord(x.partial_cmp(t)), "h": h64(t)})
                    })
                    .collect();
                o["tw"] = json!(tw);
                o
            }
            fn fin(&self) -> Value {
                let nr = self.nr();
                json!({
                    "v": (1..=nr).map(|r| Self::enc(self.val(r))).collect::<Vec<_>>(),
                    "t": (1..=nr).map(|r| vec![self.tri(r)]).collect::<Vec<_>>(),
                    "hs": (1..=nr).map(|r| h64(self.val(r))).collect::<Vec<_>>(),
                    "eq": (1..=nr).map(|i| (1..=nr).map(|j| (self.val(i) == self.val(j)) as i64).collect::<Vec<_>>()).collect::<Vec<_>>(),
                    "cmp": (1..=nr).map(|i| (1..=nr).map(|j| ord(self.val(i).cmp(self.val(j)))).collect::<Vec<_>>()).collect::<Vec<_>>(),
                })
            }
            fn clear(&mut self) {
                self.regs.clear();
            }
            fn obs_lite(&self, d: usize) -> Value {
                json!({"v": Self::enc(self.val(d)), "t": [self.tri(d)]})
            }
            fn obs_text(&self, d: usize, out: &mut String) {
                #[cfg(dashu_verif)]
                {
                    let x = self.val(d);
                    let (neg, words) = int_sign_words!($is_signed, x);
                    push_int_obs(out, neg, words, x.verif_repr(), self.regs[d - 1].is_static());
                }
                #[cfg(not(dashu_verif))]
                {
                    let _ = (d, out);
                }
            }
            fn fin_lite(&self) -> Value {
                let nr = self.nr();
                json!({
                    "v": (1..=nr).map(|r| Self::enc(self.val(r))).collect::<Vec<_>>(),
                    "t": (1..=nr).map(|r| vec![self.tri(r)]).collect::<Vec<_>>(),
                })
            }
        }
    };
}

macro_rules! int_sign_words {
    (false, $x:expr) => {
        (false, $x.as_words())
    };
    (true, $x:expr) => {{
        let (s, w) = $x.as_sign_words();
        (s == Sign::Negative, w)
    }};
}
macro_rules! int_enc {
    (false, $x:expr) => {
        enc_u($x)
    };
    (true, $x:expr) => {
        enc_i($x)
    };
}
macro_rules! int_const {
    (false, $c:expr, $f:expr) => {{
        let bytes = bytes_of($c);
        match $f {
            "le" => UBig::from_le_bytes(&bytes),
            "be" => {
                let mut b = bytes.clone();
                b.reverse();
                UBig::from_be_bytes(&b)
            }
            "prim" if bytes.len() <= 16 => {
                let mut b = [0u8; 16];
                b[..bytes.len()].copy_from_slice(&bytes);
                let v = u128::from_le_bytes(b);
                if v <= u64::MAX as u128 {
                    UBig::from(v as u64)
                } else {
                    UBig::from(v)
                }
            }
            "dword" if bytes.len() <= 16 => {
                let mut b = [0u8; 16];
                b[..bytes.len()].copy_from_slice(&bytes);
                let v = u128::from_le_bytes(b);
                if v <= Word::MAX as u128 {
                    UBig::from_word(v as Word)
                } else {
                    UBig::from_dword(v as dashu_int::DoubleWord)
                }
            }
            _ => ubig_from_bytes(&bytes),
        }
    }};
    (true, $c:expr, $f:expr) => {{
        let bytes = bytes_of($c);
        let neg = $c["s"].as_i64().unwrap_or(0) == 1;
        match $f {
            "prim" if bytes.len() <= 15 => {
                let mut b = [0u8; 16];
                b[..bytes.len()].copy_from_slice(&bytes);
                let v = i128::from_le_bytes(b);
                let v = if neg { -v } else { v };
                if v >= i64::MIN as i128 && v <= i64::MAX as i128 {
                    IBig::from(v as i64)
                } else {
                    IBig::from(v)
                }
            }
            "negate" => {
                let m = IBig::from(ubig_from_bytes(&bytes));
                if neg {
                    -m
                } else {
                    m
                }
            }
            "mulsign" => {
                IBig::from(ubig_from_bytes(&bytes)) * (if neg { Sign::Negative } else { Sign::Positive })
            }
            _ => ibig_from_parts(neg, &bytes),
        }
    }};
}
macro_rules! int_static {
    (false, $w:expr, $neg:expr) => {{
        let _ = $neg;
        unsafe { UBig::from_static_words($w) }
    }};
    (true, $w:expr, $neg:expr) => {
        unsafe { IBig::from_static_words(if $neg { Sign::Negative } else { Sign::Positive }, $w) }
    };
}
macro_rules! int_rewords {
    (false, $x:expr) => {
        UBig::from_words($x.as_words())
    };
    (true, $x:expr) => {{
        let (s, w) = $x.as_sign_words();
        IBig::from_parts(s, UBig::from_words(w))
    }};
}
macro_rules! int_rebytes {
    (false, $x:expr, $f:expr) => {
        if $f == "be" {
            UBig::from_be_bytes(&$x.to_be_bytes())
        } else {
            UBig::from_le_bytes(&$x.to_le_bytes())
        }
    };
    (true, $x:expr, $f:expr) => {
        if $f == "be" {
            IBig::from_be_bytes(&$x.to_be_bytes())
        } else {
            IBig::from_le_bytes(&$x.to_le_bytes())
        }
    };
}
macro_rules! int_via {
    // through the other integer type
    (false, $x:expr) => {
        UBig::try_from(IBig::from($x.clone())).expect("harness: non-negative by construction")
    };
    (true, $x:expr) => {{
        let (s, m) = $x.clone().into_parts();
        IBig::from_parts(s, m)
    }};
}
macro_rules! int_twins {
    (false, $x:expr) => {{
        let b = words_to_bytes($x.as_words());
        vec![ubig_from_bytes(&b), UBig::from_le_bytes(&b)]
    }};
    (true, $x:expr) => {{
        let (s, w) = $x.as_sign_words();
        let b = words_to_bytes(w);
        let neg = s == Sign::Negative;
        let m = IBig::from(ubig_from_bytes(&b));
        vec![ibig_from_parts(neg, &b), if neg { -m } else { m }]
    }};
}
macro_rules! int_special {
    (false, $p:expr, $op:expr, $d:expr, $a:expr, $n:expr, $f:expr) => {
        match $op {
            "setbit" => {
                $p.own_copy($d, $a);
                $p.own_mut($d).set_bit($n);
            }
            "clearbit" => {
                $p.own_copy($d, $a);
                $p.own_mut($d).clear_bit($n);
            }
            o => panic!("harness: unknown op {}", o),
        }
    };
    (true, $p:expr, $op:expr, $d:expr, $a:expr, $n:expr, $f:expr) => {
        match $op {
            "neg" => {
                let r = if $f == "r" {
                    -$p.val($a)
                } else {
                    let x = $p.by_value($a, $d, 0);
                    -x
                };
                $p.set($d, r);
            }
            "abs" => {
                let x = $p.by_value($a, $d, 0);
                $p.set($d, x.abs());
            }
            "signum" => {
                let r = $p.val($a).signum();
                $p.set($d, r);
            }
            o => panic!("harness: unknown op {}", o),
        }
    };
}

int_pool!(PoolU, UBig, false);
int_pool!(PoolI, IBig, true);

// ------------------------------------------------------------------------------------------
// float pool: registers of base 2 or 10, four rounding modes, any precision
// ------------------------------------------------------------------------------------------
#[derive(Clone)]
pub enum FV<const B: Word> {
    Z(FBig<mode::Zero, B>),
    U(FBig<mode::Up, B>),
    E(FBig<mode::HalfEven, B>),
    A(FBig<mode::HalfAway, B>),
}
#[derive(Clone)]
pub enum FReg {
    B2(FV<2>),
    B10(FV<10>),
    // bases that are powers of the two above: base changes between them take the power-of-base shortcuts
    B16(FV<16>),
    B100(FV<100>),
}
macro_rules! fv_each {
    ($x:expr, $p:ident => $body:expr) => {
        match $x {
            FV::Z($p) => $body,
            FV::U($p) => $body,
            FV::E($p) => $body,
            FV::A($p) => $body,
        }
    };
}
/// applies `body` (an expression of the same FBig type as `p`) and wraps the result in the same variant
macro_rules! fv_map {
    ($x:expr, $p:ident => $body:expr) => {
        match $x {
            FV::Z($p) => FV::Z($body),
            FV::U($p) => FV::U($body),
            FV::E($p) => FV::E($body),
            FV::A($p) => FV::A($body),
        }
    };
}
macro_rules! fv_pair {
    ($x:expr, $y:expr, $p:ident, $q:ident => $body:expr) => {
        fv_each!($x, $p => fv_each!($y, $q => $body))
    };
}
impl<const B: Word> FV<B> {
    fn mode(&self) -> &'static str {
        match self {
            FV::Z(_) => "Zero",
            FV::U(_) => "Up",
            FV::E(_) => "HalfEven",
            FV::A(_) => "HalfAway",
        }
    }
    fn enc(&self) -> Value {
        let mut v = fv_each!(self, p => enc_f(p));
        v["base"] = json!(B);
        v["mode"] = json!(self.mode());
        v
    }
    fn tri(&self) -> Value {
        #[cfg(dashu_verif)]
        {
            fv_each!(self, p => triple(p.repr().significand().verif_repr(), false))
        }
        #[cfg(not(dashu_verif))]
        {
            Value::Null
        }
    }
    /// the same number with rounding mode `m` (context precision unchanged)
    fn with_mode(&self, m: &str) -> FV<B> {
        fv_each!(self.clone(), p => match m {
            "Up" => FV::U(p.with_rounding::<mode::Up>()),
            "HalfEven" => FV::E(p.with_rounding::<mode::HalfEven>()),
            "HalfAway" => FV::A(p.with_rounding::<mode::HalfAway>()),
            _ => FV::Z(p.with_rounding::<mode::Zero>()),
        })
    }
    fn eq(&self, o: &FV<B>) -> bool {
        fv_pair!(self, o, p, q => p == q)
    }
    fn pcmp(&self, o: &FV<B>) -> Option<Ordering> {
        fv_pair!(self, o, p, q => p.partial_cmp(q))
    }
    /// Ord::cmp exists between floats of the same rounding mode only
    fn tcmp(&self, o: &FV<B>) -> i64 {
        match (self, o) {
            (FV::Z(p), FV::Z(q)) => ord(p.cmp(q)),
            (FV::U(p), FV::U(q)) => ord(p.cmp(q)),
            (FV::E(p), FV::E(q)) => ord(p.cmp(q)),
            (FV::A(p), FV::A(q)) => ord(p.cmp(q)),
            _ => NA,
        }
    }
    fn from_wire(c: &Value) -> FV<B> {
        let m = c["mode"].as_str().unwrap_or("Zero");
        let inf = c["inf"].as_i64().unwrap_or(0);
        let base: FBig<mode::Zero, B> = if inf > 0 {
            FBig::INFINITY
        } else if inf < 0 {
            FBig::NEG_INFINITY
        } else {
            // from_parts: precision = number of digits of the significand as given
            let x = FBig::<mode::Zero, B>::from_parts(dec_i(&c["sig"]), c["exp"].as_i64().unwrap_or(0) as isize);
            match c["prec"].as_u64() {
                Some(p) => x.with_precision(p as usize).value(),
                None => x,
            }
        };
        FV::Z(base).with_mode(m)
    }
    fn twins(&self) -> Vec<FV<B>> {
        fv_each!(self, p => {
            let r = p.repr();
            if r.is_infinite() {
                if r.sign() == Sign::Negative {
                    vec![FV::Z(FBig::NEG_INFINITY), FV::A(FBig::NEG_INFINITY)]
                } else {
                    vec![FV::Z(FBig::INFINITY), FV::A(FBig::INFINITY)]
                }
            } else {
                let (sig, exp) = (r.significand().clone(), r.exponent());
                vec![
                    // precision = digits of the significand, other rounding mode
                    FV::E(FBig::<mode::HalfEven, B>::from_parts(sig.clone(), exp)),
                    // unlimited precision
                    FV::U(FBig::<mode::Up, B>::from_repr_const(dashu_float::Repr::<B>::new(sig, exp))),
                ]
            }
        })
    }
    fn binary(op: &str, f: &str, x: &FV<B>, y: &FV<B>) -> FV<B> {
        // both operands need the same rounding mode type: the right operand is re-tagged
        let y = y.with_mode(x.mode());
        match (x, &y) {
            (FV::Z(p), FV::Z(q)) => FV::Z(Self::bin1(op, f, p, q)),
            (FV::U(p), FV::U(q)) => FV::U(Self::bin1(op, f, p, q)),
            (FV::E(p), FV::E(q)) => FV::E(Self::bin1(op, f, p, q)),
            (FV::A(p), FV::A(q)) => FV::A(Self::bin1(op, f, p, q)),
            _ => unreachable!(),
        }
    }
    fn bin1<R: dashu_float::round::Round>(op: &str, f: &str, p: &FBig<R, B>, q: &FBig<R, B>) -> FBig<R, B> {
        match f {
            "vv" => binop4!(op, p.clone(), q.clone()),
            "vr" => binop4!(op, p.clone(), q),
            "rv" => binop4!(op, p, q.clone()),
            "ar" => {
                let mut x = p.clone();
                asgop4!(op, &mut x, q);
                x
            }
            "av" => {
                let mut x = p.clone();
                asgop4!(op, &mut x, q.clone());
                x
            }
            _ => binop4!(op, p, q),
        }
    }
}
impl FReg {
    fn base(&self) -> u64 {
        match self {
            FReg::B2(_) => 2,
            FReg::B10(_) => 10,
            FReg::B16(_) => 16,
            FReg::B100(_) => 100,
        }
    }
    fn enc(&self) -> Value {
        match self {
            FReg::B2(x) => x.enc(),
            FReg::B10(x) => x.enc(),
            FReg::B16(x) => x.enc(),
            FReg::B100(x) => x.enc(),
        }
    }
    fn tri(&self) -> Value {
        match self {
            FReg::B2(x) => x.tri(),
            FReg::B10(x) => x.tri(),
            FReg::B16(x) => x.tri(),
            FReg::B100(x) => x.tri(),
        }
    }
    fn eq(&self, o: &FReg) -> i64 {
        match (self, o) {
            (FReg::B2(x), FReg::B2(y)) => x.eq(y) as i64,
            (FReg::B10(x), FReg::B10(y)) => x.eq(y) as i64,
            (FReg::B16(x), FReg::B16(y)) => x.eq(y) as i64,
            (FReg::B100(x), FReg::B100(y)) => x.eq(y) as i64,
            _ => NA,
        }
    }
    fn pcmp(&self, o: &FReg) -> i64 {
        match (self, o) {
            (FReg::B2(x), FReg::B2(y)) => pord(x.pcmp(y)),
            (FReg::B10(x), FReg::B10(y)) => pord(x.pcmp(y)),
            (FReg::B16(x), FReg::B16(y)) => pord(x.pcmp(y)),
            (FReg::B100(x), FReg::B100(y)) => pord(x.pcmp(y)),
            _ => NA,
        }
    }
    fn tcmp(&self, o: &FReg) -> i64 {
        match (self, o) {
            (FReg::B2(x), FReg::B2(y)) => x.tcmp(y),
            (FReg::B10(x), FReg::B10(y)) => x.tcmp(y),
            (FReg::B16(x), FReg::B16(y)) => x.tcmp(y),
            (FReg::B100(x), FReg::B100(y)) => x.tcmp(y),
            _ => NA,
        }
    }
    fn twins(&self) -> Vec<FReg> {
        match self {
            FReg::B2(x) => x.twins().into_iter().map(FReg::B2).collect(),
            FReg::B10(x) => x.twins().into_iter().map(FReg::B10).collect(),
            FReg::B16(x) => x.twins().into_iter().map(FReg::B16).collect(),
            FReg::B100(x) => x.twins().into_iter().map(FReg::B100).collect(),
        }
    }
}
pub struct PoolF {
    pub regs: Vec<FReg>,
}
impl PoolF {
    pub fn new(nr: usize) -> Self {
        PoolF { regs: (0..nr).map(|_| FReg::B2(FV::Z(FBig::ZERO))).collect() }
    }
}
macro_rules! freg_map {
    ($x:expr, $v:ident => $body:expr) => {
        match $x {
            FReg::B2($v) => FReg::B2($body),
            FReg::B10($v) => FReg::B10($body),
            FReg::B16($v) => FReg::B16($body),
            FReg::B100($v) => FReg::B100($body),
        }
    };
}
impl Pool for PoolF {
    fn nr(&self) -> usize {
        self.regs.len()
    }
    fn exec(&mut self, s: &Value) {
        let (op, d, a, b, n, f) = (st(s, "op"), us(s, "d"), us(s, "a"), us(s, "b"), s["n"].as_i64().unwrap_or(0), st(s, "f"));
        let r: FReg = match op {
            "const" => {
                match s["c"]["base"].as_u64().unwrap_or(2) {
                    10 => FReg::B10(FV::<10>::from_wire(&s["c"])),
                    16 => FReg::B16(FV::<16>::from_wire(&s["c"])),
                    100 => FReg::B100(FV::<100>::from_wire(&s["c"])),
                    _ => FReg::B2(FV::<2>::from_wire(&s["c"])),
                }
            }
            "add" | "sub" | "mul" | "div" => match (&self.regs[a - 1], &self.regs[b - 1]) {
                (FReg::B2(x), FReg::B2(y)) => FReg::B2(FV::binary(op, f, x, y)),
                (FReg::B10(x), FReg::B10(y)) => FReg::B10(FV::binary(op, f, x, y)),
                (FReg::B16(x), FReg::B16(y)) => FReg::B16(FV::binary(op, f, x, y)),
                (FReg::B100(x), FReg::B100(y)) => FReg::B100(FV::binary(op, f, x, y)),
                // operands of different bases cannot be combined (a base change is a producer of its own:
                // "withbase"); the operation then takes its left operand twice
                (FReg::B2(x), _) => FReg::B2(FV::binary(op, f, x, x)),
                (FReg::B10(x), _) => FReg::B10(FV::binary(op, f, x, x)),
                (FReg::B16(x), _) => FReg::B16(FV::binary(op, f, x, x)),
                (FReg::B100(x), _) => FReg::B100(FV::binary(op, f, x, x)),
            },
            "neg" => freg_map!(self.regs[a - 1].clone(), v => fv_map!(v, p => if f == "r" { -&p } else { -p })),
            "abs" => freg_map!(self.regs[a - 1].clone(), v => fv_map!(v, p => p.abs())),
            "sqr" => freg_map!(self.regs[a - 1].clone(), v => fv_map!(v, p => p.sqr())),
            // integral / fractional parts through every accessor: the same number must come back == whichever way it was cut
            "trunc" => freg_map!(self.regs[a - 1].clone(), v => fv_map!(v, p => p.trunc())),
            "splitint" => freg_map!(self.regs[a - 1].clone(), v => fv_map!(v, p => p.split_at_point().0)),
            "splitfract" => freg_map!(self.regs[a - 1].clone(), v => fv_map!(v, p => p.split_at_point().1)),
            "fract" => freg_map!(self.regs[a - 1].clone(), v => fv_map!(v, p => p.fract())),
            "floor" => freg_map!(self.regs[a - 1].clone(), v => fv_map!(v, p => p.floor())),
            "round" => freg_map!(self.regs[a - 1].clone(), v => fv_map!(v, p => p.round())),
            "shl" => freg_map!(self.regs[a - 1].clone(), v => fv_map!(v, p => if f == "a" { let mut x = p; x <<= n as isize; x } else { p << (n as isize) })),
            "shr" => freg_map!(self.regs[a - 1].clone(), v => fv_map!(v, p => if f == "a" { let mut x = p; x >>= n as isize; x } else { p >> (n as isize) })),
            "withprec" => freg_map!(self.regs[a - 1].clone(), v => fv_map!(v, p => p.with_precision(n as usize).value())),
            "withmode" => freg_map!(&self.regs[a - 1], v => v.with_mode(f)),
            "withbase" => match self.regs[a - 1].clone() {
                FReg::B2(v) => FReg::B10(fv_map!(v, p => p.with_base::<10>().value())),
                FReg::B10(v) => FReg::B2(fv_map!(v, p => p.with_base::<2>().value())),
                // down to the root of the base (exact: B is a power of the new base)
                FReg::B16(v) => FReg::B2(fv_map!(v, p => p.with_base::<2>().value())),
                FReg::B100(v) => FReg::B10(fv_map!(v, p => p.with_base::<10>().value())),
            },
            // up to a power of the base (2 -> 16, 10 -> 100), or across (16 -> 100 through the general path, 100 -> 16)
            "upbase" => match self.regs[a - 1].clone() {
                FReg::B2(v) => FReg::B16(fv_map!(v, p => p.with_base::<16>().value())),
                FReg::B10(v) => FReg::B100(fv_map!(v, p => p.with_base::<100>().value())),
                FReg::B16(v) => FReg::B100(fv_map!(v, p => p.with_base::<100>().value())),
                FReg::B100(v) => FReg::B16(fv_map!(v, p => p.with_base::<16>().value())),
            },
            "withbaseprec" => match self.regs[a - 1].clone() {
                FReg::B2(v) => FReg::B10(fv_map!(v, p => p.with_base_and_precision::<10>(n as usize).value())),
                FReg::B10(v) => FReg::B2(fv_map!(v, p => p.with_base_and_precision::<2>(n as usize).value())),
                FReg::B16(v) => FReg::B2(fv_map!(v, p => p.with_base_and_precision::<2>(n as usize).value())),
                FReg::B100(v) => FReg::B10(fv_map!(v, p => p.with_base_and_precision::<10>(n as usize).value())),
            },
            "clone" => self.regs[a - 1].clone(),
            "clonefrom" => {
                // clone_from needs identical types; otherwise it degenerates to clone
                let src = self.regs[a - 1].clone();
                let mut dst = self.regs[d - 1].clone();
                let done = match (&mut dst, &src) {
                    (FReg::B2(FV::Z(x)), FReg::B2(FV::Z(y))) => { x.clone_from(y); true }
                    (FReg::B2(FV::U(x)), FReg::B2(FV::U(y))) => { x.clone_from(y); true }
                    (FReg::B2(FV::E(x)), FReg::B2(FV::E(y))) => { x.clone_from(y); true }
                    (FReg::B2(FV::A(x)), FReg::B2(FV::A(y))) => { x.clone_from(y); true }
                    (FReg::B10(FV::Z(x)), FReg::B10(FV::Z(y))) => { x.clone_from(y); true }
                    (FReg::B10(FV::U(x)), FReg::B10(FV::U(y))) => { x.clone_from(y); true }
                    (FReg::B10(FV::E(x)), FReg::B10(FV::E(y))) => { x.clone_from(y); true }
                    (FReg::B10(FV::A(x)), FReg::B10(FV::A(y))) => { x.clone_from(y); true }
                    (FReg::B16(FV::Z(x)), FReg::B16(FV::Z(y))) => { x.clone_from(y); true }
                    (FReg::B16(FV::A(x)), FReg::B16(FV::A(y))) => { x.clone_from(y); true }
                    (FReg::B100(FV::Z(x)), FReg::B100(FV::Z(y))) => { x.clone_from(y); true }
                    (FReg::B100(FV::A(x)), FReg::B100(FV::A(y))) => { x.clone_from(y); true }
                    _ => false,
                };
                if done { dst } else { src }
            }
            "fromint" => {
                let i = dec_i(&s["c"]);
                if f == "10" {
                    FReg::B10(FV::A(FBig::<mode::HalfAway, 10>::from(i)))
                } else if f == "16" {
                    FReg::B16(FV::E(FBig::<mode::HalfEven, 16>::from(i)))
                } else if f == "100" {
                    FReg::B100(FV::U(FBig::<mode::Up, 100>::from(i)))
                } else {
                    FReg::B2(FV::Z(FBig::<mode::Zero, 2>::from(i)))
                }
            }
            o => panic!("harness: unknown float op {}", o),
        };
        self.regs[d - 1] = r;
    }
    fn obs(&self, d: usize) -> Value {
        let x = &self.regs[d - 1];
        let mut o = json!({
            "v": x.enc(), "t": [x.tri()],
            "eq": self.regs.iter().map(|r| x.eq(r)).collect::<Vec<_>>(),
            "qe": self.regs.iter().map(|r| r.eq(x)).collect::<Vec<_>>(),
            "cmp": self.regs.iter().map(|r| x.pcmp(r)).collect::<Vec<_>>(),
            "pmc": self.regs.iter().map(|r| r.pcmp(x)).collect::<Vec<_>>(),
            "tcmp": self.regs.iter().map(|r| x.tcmp(r)).collect::<Vec<_>>(),
            "h": [],
        });
        let tw: Vec<Value> = x
            .twins()
            .iter()
            .map(|t| json!({"v": t.enc(), "eq": x.eq(t), "qe": t.eq(x), "cmp": x.pcmp(t), "pmc": t.pcmp(x), "pcmp": x.pcmp(t), "h": []}))
            .collect();
        o["tw"] = json!(tw);
        o
    }
    fn fin(&self) -> Value {
        json!({
            "v": self.regs.iter().map(|r| r.enc()).collect::<Vec<_>>(),
            "t": self.regs.iter().map(|r| vec![r.tri()]).collect::<Vec<_>>(),
            "hs": self.regs.iter().map(|_| json!([])).collect::<Vec<_>>(),
            "eq": self.regs.iter().map(|i| self.regs.iter().map(|j| i.eq(j)).collect::<Vec<_>>()).collect::<Vec<_>>(),
            "cmp": self.regs.iter().map(|i| self.regs.iter().map(|j| i.pcmp(j)).collect::<Vec<_>>()).collect::<Vec<_>>(),
        })
    }
    fn clear(&mut self) {
        self.regs.clear();
    }
}

// ------------------------------------------------------------------------------------------
// rational pool: RBig and Relaxed registers; mixed pairs are compared through RBig::as_relaxed
// ------------------------------------------------------------------------------------------
#[derive(Clone)]
pub enum QReg {
    R(RBig),
    X(Relaxed),
}
impl QReg {
    fn enc(&self) -> Value {
        match self {
            QReg::R(x) => json!({"num": enc_i(x.numerator()), "den": enc_u(x.denominator()), "kind": "R"}),
            QReg::X(x) => json!({"num": enc_i(x.numerator()), "den": enc_u(x.denominator()), "kind": "X"}),
        }
    }
    fn parts(&self) -> (&IBig, &UBig) {
        match self {
            QReg::R(x) => (x.numerator(), x.denominator()),
            QReg::X(x) => (x.numerator(), x.denominator()),
        }
    }
    fn tri(&self) -> Vec<Value> {
        #[cfg(dashu_verif)]
        {
            let (n, d) = self.parts();
            vec![triple(n.verif_repr(), false), triple(d.verif_repr(), false)]
        }
        #[cfg(not(dashu_verif))]
        {
            vec![]
        }
    }
    fn relaxed(&self) -> &Relaxed {
        match self {
            QReg::R(x) => x.as_relaxed(),
            QReg::X(x) => x,
        }
    }
    fn eq(&self, o: &QReg) -> i64 {
        (match (self, o) {
            (QReg::R(x), QReg::R(y)) => x == y,
            _ => self.relaxed() == o.relaxed(),
        }) as i64
    }
    fn cmp(&self, o: &QReg) -> i64 {
        match (self, o) {
            (QReg::R(x), QReg::R(y)) => ord(x.cmp(y)),
            _ => ord(self.relaxed().cmp(o.relaxed())),
        }
    }
    fn hash(&self) -> Value {
        match self {
            QReg::R(x) => h64(x),
            QReg::X(_) => json!([]),
        }
    }
    fn to_r(&self) -> RBig {
        match self {
            QReg::R(x) => x.clone(),
            QReg::X(x) => x.clone().canonicalize(),
        }
    }
    fn to_x(&self) -> Relaxed {
        match self {
            QReg::R(x) => x.clone().relax(),
            QReg::X(x) => x.clone(),
        }
    }
    fn twins(&self) -> Vec<QReg> {
        let (n, d) = self.parts();
        match self {
            QReg::R(_) => vec![
                QReg::R(RBig::from_parts(n.clone(), d.clone())),
                QReg::R(RBig::from_parts_signed(-n.clone(), -IBig::from(d.clone()))),
            ],
            QReg::X(_) => vec![
                // the same fraction not in lowest terms, and in lowest terms
                QReg::X(Relaxed::from_parts(n.clone() * 3, d.clone() * 3u8)),
                QReg::X(Relaxed::from_parts(n.clone(), d.clone()).canonicalize().relax()),
            ],
        }
    }
}
pub struct PoolQ {
    pub regs: Vec<QReg>,
}
impl PoolQ {
    pub fn new(nr: usize) -> Self {
        PoolQ { regs: (0..nr).map(|_| QReg::R(RBig::ZERO)).collect() }
    }
}
impl Pool for PoolQ {
    fn nr(&self) -> usize {
        self.regs.len()
    }
    fn exec(&mut self, s: &Value) {
        let (op, d, a, b, n, f) = (st(s, "op"), us(s, "d"), us(s, "a"), us(s, "b"), us(s, "n"), st(s, "f"));
        let r: QReg = match op {
            "const" => {
                let (num, den) = (dec_i(&s["c"]["num"]), dec_u(&s["c"]["den"]));
                // the const constructors take double words: used when both parts fit
                let small = u128::try_from(&den).ok().zip(u128::try_from(&UBig::try_from(if num < IBig::ZERO { -num.clone() } else { num.clone() }).unwrap()).ok());
                if f == "pconst" && small.is_some() {
                    let (d, n) = small.unwrap();
                    let sign = if num < IBig::ZERO { Sign::Negative } else { Sign::Positive };
                    if s["c"]["kind"] == "X" { QReg::X(Relaxed::from_parts_const(sign, n, d)) } else { QReg::R(RBig::from_parts_const(sign, n, d)) }
                } else if s["c"]["kind"] == "X" {
                    if f == "signed" {
                        QReg::X(Relaxed::from_parts_signed(-num, -IBig::from(den)))
                    } else {
                        QReg::X(Relaxed::from_parts(num, den))
                    }
                } else if f == "signed" {
                    QReg::R(RBig::from_parts_signed(-num, -IBig::from(den)))
                } else {
                    QReg::R(RBig::from_parts(num, den))
                }
            }
            "add" | "sub" | "mul" | "div" => match &self.regs[a - 1] {
                QReg::R(x) => {
                    let y = self.regs[b - 1].to_r();
                    QReg::R(match f {
                        "vv" => binop4!(op, x.clone(), y),
                        "vr" => binop4!(op, x.clone(), &y),
                        "rv" => binop4!(op, x, y),
                        "ar" => {
                            let mut z = x.clone();
                            asgop4!(op, &mut z, &y);
                            z
                        }
                        _ => binop4!(op, x, &y),
                    })
                }
                QReg::X(x) => {
                    let y = self.regs[b - 1].to_x();
                    QReg::X(match f {
                        "vv" => binop4!(op, x.clone(), y),
                        "vr" => binop4!(op, x.clone(), &y),
                        "rv" => binop4!(op, x, y),
                        "ar" => {
                            let mut z = x.clone();
                            asgop4!(op, &mut z, &y);
                            z
                        }
                        _ => binop4!(op, x, &y),
                    })
                }
            },
            "neg" => match self.regs[a - 1].clone() {
                QReg::R(x) => QReg::R(-x),
                QReg::X(x) => QReg::X(-x),
            },
            "inv" => match self.regs[a - 1].clone() {
                // the reciprocal of zero is not a number: not a producer
                QReg::R(x) if !x.is_zero() => QReg::R(x.inv()),
                QReg::X(x) if !x.is_zero() => QReg::X(x.inv()),
                other => other,
            },
            "sqr" => match &self.regs[a - 1] {
                QReg::R(x) => QReg::R(x.sqr()),
                QReg::X(x) => QReg::X(x.sqr()),
            },
            "pow" => match &self.regs[a - 1] {
                QReg::R(x) => QReg::R(x.pow(n)),
                QReg::X(x) => QReg::X(x.pow(n)),
            },
            "relax" => QReg::X(self.regs[a - 1].to_x()),
            "canon" => QReg::R(self.regs[a - 1].to_r()),
            // the same value with numerator and denominator multiplied by n (stays unreduced in a Relaxed)
            "scale" => {
                let (nu, de) = self.regs[a - 1].parts();
                let k = n.max(1);
                QReg::X(Relaxed::from_parts(nu.clone() * k, de.clone() * k))
            }
            "clone" => self.regs[a - 1].clone(),
            "clonefrom" => {
                let src = self.regs[a - 1].clone();
                let mut dst = self.regs[d - 1].clone();
                let done = match (&mut dst, &src) {
                    (QReg::R(x), QReg::R(y)) => { x.clone_from(y); true }
                    (QReg::X(x), QReg::X(y)) => { x.clone_from(y); true }
                    _ => false,
                };
                if done { dst } else { src }
            }
            "fromint" => {
                let i = dec_i(&s["c"]);
                if f == "X" { QReg::X(Relaxed::from(i)) } else { QReg::R(RBig::from(i)) }
            }
            // the exact conversion of a finite float: c = {sig, exp, base}; f = "R" | "X" | "Rrepr" | "Xrepr"
            "fromfloat" => {
                let (sig, exp) = (dec_i(&s["c"]["sig"]), s["c"]["exp"].as_i64().unwrap_or(0) as isize);
                macro_rules! conv {
                    ($b:literal) => {{
                        let x = FBig::<mode::Zero, $b>::from_parts(sig, exp);
                        match f {
                            "X" => QReg::X(Relaxed::try_from(x).unwrap()),
                            "Xrepr" => QReg::X(Relaxed::try_from(x.into_repr()).unwrap()),
                            "Rrepr" => QReg::R(RBig::try_from(x.into_repr()).unwrap()),
                            _ => QReg::R(RBig::try_from(x).unwrap()),
                        }
                    }};
                }
                match s["c"]["base"].as_u64().unwrap_or(2) {
                    10 => conv!(10),
                    16 => conv!(16),
                    6 => conv!(6),
                    _ => conv!(2),
                }
            }
            o => panic!("harness: unknown rational op {}", o),
        };
        self.regs[d - 1] = r;
    }
    fn obs(&self, d: usize) -> Value {
        let x = &self.regs[d - 1];
        let mut o = json!({
            "v": x.enc(), "t": x.tri(),
            "eq": self.regs.iter().map(|r| x.eq(r)).collect::<Vec<_>>(),
            "qe": self.regs.iter().map(|r| r.eq(x)).collect::<Vec<_>>(),
            "cmp": self.regs.iter().map(|r| x.cmp(r)).collect::<Vec<_>>(),
            "pmc": self.regs.iter().map(|r| r.cmp(x)).collect::<Vec<_>>(),
            "h": x.hash(),
        });
        let tw: Vec<Value> = x
            .twins()
            .iter()
            .map(|t| json!({"v": t.enc(), "eq": x.eq(t), "qe": t.eq(x), "cmp": x.cmp(t), "pmc": t.cmp(x), "pcmp": x.cmp(t), "h": t.hash()}))
            .collect();
        o["tw"] = json!(tw);
        o
    }
    fn fin(&self) -> Value {
        json!({
            "v": self.regs.iter().map(|r| r.enc()).collect::<Vec<_>>(),
            "t": self.regs.iter().map(|r| r.tri()).collect::<Vec<_>>(),
            "hs": self.regs.iter().map(|r| r.hash()).collect::<Vec<_>>(),
            "eq": self.regs.iter().map(|i| self.regs.iter().map(|j| i.eq(j)).collect::<Vec<_>>()).collect::<Vec<_>>(),
            "cmp": self.regs.iter().map(|i| self.regs.iter().map(|j| i.cmp(j)).collect::<Vec<_>>()).collect::<Vec<_>>(),
        })
    }
    fn clear(&mut self) {
        self.regs.clear();
    }
}

pub fn make_pool(kind: &str, nr: usize) -> Box<dyn Pool> {
    match kind {
        "U" => Box::new(PoolU::new(nr)),
        "I" => Box::new(PoolI::new(nr)),
        "F" => Box::new(PoolF::new(nr)),
        "Q" => Box::new(PoolQ::new(nr)),
        k => panic!("harness: unknown pool {}", k),
    }
}

/// Runs one history; `window` brackets every call into the library (the C17 driver records
/// allocator events inside it) and returns what must be attached to the step's observation.
pub fn run_history(case: &Value, window: &mut dyn FnMut(&mut dyn FnMut()) -> Value) -> Value {
    run_history_opt(case, window, false)
}
/// `lite`: log only value and hook triple per step (the Miri runs: Miri is the observer there, the
/// interpreted comparison / hashing / twin building would dominate the run time)
pub fn run_history_opt(case: &Value, window: &mut dyn FnMut(&mut dyn FnMut()) -> Value, lite: bool) -> Value {
    let kind = case["pool"].as_str().unwrap_or("U");
    let nr = case["nr"].as_u64().unwrap_or(4) as usize;
    // the register file itself belongs to the harness (built outside the recorded window)
    let mut pool = make_pool(kind, nr);
    let h0 = if lite { json!([]) } else { pool.fin()["hs"][0].clone() };
    let mut obs: Vec<Value> = Vec::new();
    let mut harness_fault = false;
    let mut obs_fault: Option<String> = None;
    for s in case["steps"].as_array().map(|a| a.as_slice()).unwrap_or(&[]) {
        let d = us(s, "d");
        let mut res: Result<(), String> = Ok(());
        let al = window(&mut || res = guarded(|| pool.exec(s)));
        // the observations call ==, cmp, hash, Display ... on what the step produced: a panic there is data as well
        let mut o = match guarded(|| if lite { pool.obs_lite(d) } else { pool.obs(d) }) {
            Ok(o) => o,
            Err(m) => {
                obs_fault = Some(m);
                break;
            }
        };
        match res {
            Ok(()) => o["k"] = json!("ok"),
            Err(m) => {
                if m.starts_with("harness:") {
                    harness_fault = true;
                }
                o["k"] = json!("panic");
                o["msg"] = json!(m);
            }
        }
        o["al"] = al;
        o["op"] = s["op"].clone();
        obs.push(o);
    }
    if let Some(m) = obs_fault {
        // the pool may hold a value the library itself cannot handle any more: it is leaked, not dropped
        std::mem::forget(pool);
        let mut ev = case.clone();
        ev["obsfault"] = json!(m);
        ev["obs"] = json!(obs);
        return ev;
    }
    let fin = match guarded(|| if lite { pool.fin_lite() } else { pool.fin() }) {
        Ok(f) => f,
        Err(m) => {
            std::mem::forget(pool);
            let mut ev = case.clone();
            ev["obsfault"] = json!(m);
            ev["obs"] = json!(obs);
            return ev;
        }
    };
    // end of the history: every register is dropped
    let al_end = window(&mut || pool.clear());
    drop(pool);
    let mut ev = case.clone();
    ev["obs"] = json!(obs);
    ev["fin"] = fin;
    ev["h0"] = h0;
    ev["alend"] = al_end;
    if harness_fault {
        ev["fault"] = json!(true);
    }
    ev
}

/// The same as run_history for the integer pools, writing the event line by hand: the case line
/// is echoed and `obs`, `fin`, `alend`, `noalloc` are appended.  Used for the Miri runs, where
/// building and serialising serde_json trees would dominate the interpreted run time.
pub fn run_history_text(raw_line: &str, case: &Value, extra: &str) -> (String, bool) {
    let kind = case["pool"].as_str().unwrap_or("U");
    let nr = case["nr"].as_u64().unwrap_or(4) as usize;
    let mut pool = make_pool(kind, nr);
    let mut out = String::with_capacity(raw_line.len() + 4096);
    let body = raw_line.trim_end();
    out.push_str(&body[..body.len() - 1]); // without the closing brace
    out.push_str(",\"obs\":[");
    let mut fault = false;
    for (i, s) in case["steps"].as_array().map(|a| a.as_slice()).unwrap_or(&[]).iter().enumerate() {
        let d = us(s, "d");
        let res = guarded(|| pool.exec(s));
        if i > 0 {
            out.push(',');
        }
        out.push('{');
        pool.obs_text(d, &mut out);
        match res {
            Ok(()) => out.push_str(",\"k\":\"ok\""),
            Err(m) => {
                fault |= m.starts_with("harness:");
                out.push_str(",\"k\":\"panic\",\"msg\":");
                out.push_str(&serde_json::to_string(&m).unwrap());
            }
        }
        out.push_str(",\"al\":[]}");
    }
    out.push_str("],\"fin\":{\"v\":[");
    let mut vs = String::new();
    let mut ts = String::new();
    for r in 1..=nr {
        // obs_text writes "v":{...},"t":[...] ; split it into the two arrays of `fin`
        let mut one = String::new();
        pool.obs_text(r, &mut one);
        let cut = one.find(",\"t\":").expect("harness: obs_text layout");
        if r > 1 {
            vs.push(',');
            ts.push(',');
        }
        vs.push_str(&one[4..cut]);
        ts.push_str(&one[cut + 5..]);
    }
    out.push_str(&vs);
    out.push_str("],\"t\":[");
    out.push_str(&ts);
    out.push_str("]},\"alend\":[],\"noalloc\":true");
    out.push_str(extra);
    out.push('}');
    pool.clear();
    (out, fault)
}

// ------------------------------------------------------------------------------------------
// seeded random histories over the integer pools
// ------------------------------------------------------------------------------------------
pub fn wire_mag(neg: bool, bytes: &[u8]) -> Value {
    json!({"s": if neg && !bytes.is_empty() { 1 } else { 0 }, "m": bytes})
}
/// the constants around the inline/heap boundary: 0, 1, W-1, W, W^2-1, W^2, W^2+1, W^3-1 (+ 2^63, W^3)
pub fn boundary_bytes(i: u64) -> Vec<u8> {
    let wb = WORD_BYTES;
    match i % 10 {
        0 => vec![],
        1 => vec![1],
        2 => vec![255; wb],
        3 => { let mut v = vec![0; wb]; v.push(1); v }
        4 => vec![255; 2 * wb],
        5 => { let mut v = vec![0; 2 * wb]; v.push(1); v }
        6 => { let mut v = vec![0; 2 * wb]; v[0] = 1; v.push(1); v }
        7 => vec![255; 3 * wb],
        8 => { let mut v = vec![0; wb]; v[wb - 1] = 128; v }
        _ => { let mut v = vec![0; 3 * wb]; v.push(1); v }
    }
}
const BITS: &[usize] = &[0, 1, 63, 64, 65, 127, 129, 191, 192, 193, 255, 256];
const SIZES: &[usize] = &[0, 1, 2, 3, 4, 9, 10, 11];
fn rnd_mag(rng: &mut Rng, maxw: usize) -> Vec<u8> {
    match rng.below(4) {
        0 => boundary_bytes(rng.next()),
        1 => {
            let w = *rng.pick(SIZES);
            let pat = rng.next();
            pattern_bytes(rng, w.min(maxw.max(1)) * WORD_BYTES, pat)
        }
        _ => {
            let n = random_size_bytes(rng, maxw);
            let pat = if rng.coin() { 0 } else { rng.next() };
            pattern_bytes(rng, n, pat)
        }
    }
}
/// Probes relative to the storage a history ends with (`fin_t` = the hook triples of a dry run; allocation sizes depend
/// on the operations only, so the real run reaches the same state): set_bit at the capacity boundary (UBig), and an
/// in-place right shift by whole words followed by a left shift by the value's own new word count (the shrunk value keeps
/// its large buffer, the shift then moves every word beyond the old length).
pub fn add_probes(case: &mut Value, rng: &mut Rng, kind: &str, fin_t: &Value) {
    let mut extra: Vec<Value> = Vec::new();
    if let Some(ts) = fin_t.as_array() {
        for (r, t) in ts.iter().enumerate() {
            if !t[0]["heap"].as_bool().unwrap_or(false) || extra.len() >= 3 || rng.coin() {
                continue;
            }
            let (cap, len) = (t[0]["cap"].as_u64().unwrap_or(0), t[0]["len"].as_u64().unwrap_or(0));
            if kind == "U" && rng.coin() {
                let k = rng.below(64);
                let n = match rng.below(4) {
                    0 => 64 * cap - 1,
                    1 => 64 * (cap + 1) + k,
                    _ => 64 * cap + k,
                };
                extra.push(json!({"op": "setbit", "d": r + 1, "a": r + 1, "n": n}));
            } else if len >= 3 && cap > len && rng.coin() && ts.len() >= 2 {
                // grow the value in place until its buffer is exactly full (len == capacity), then divide it BY VALUE by a
                // power of two of two words (2^64 .. 2^127): the in-place word shifts of the division work on the whole buffer,
                // and a read or write one word past it lands on the guard page
                let other = if r == 0 { 2 } else { 1 };
                let top_bits = 64 * (cap - len) - 1;
                extra.push(json!({"op": "shl", "d": r + 1, "a": r + 1, "n": top_bits.saturating_sub(rng.below(2)), "f": "a"}));
                let mut m = vec![0u8; 8 + rng.below(8) as usize];
                m.push(1 << rng.below(8));
                extra.push(json!({"op": "const", "d": other, "f": if kind == "U" { "le" } else { "parts" }, "c": wire_mag(false, &m)}));
                extra.push(json!({"op": *rng.pick(&["div", "rem", "div"]), "d": r + 1, "a": r + 1, "b": other, "f": *rng.pick(&["vv", "av", "vr"])}));
            } else if len >= 4 {
                let j = 1 + rng.below((len - 3).min(3));
                let rest = len - j;
                extra.push(json!({"op": "shr", "d": r + 1, "a": r + 1, "n": 64 * j, "f": "a"}));
                extra.push(json!({"op": "shl", "d": r + 1, "a": r + 1, "n": 64 * rest + rng.below(64), "f": *rng.pick(&["a", "v"])}));
            }
        }
    }
    if let Some(steps) = case["steps"].as_array_mut() {
        steps.extend(extra);
    }
}

pub fn gen_int_history(rng: &mut Rng, kind: &str, nr: usize, len: usize, maxw: usize) -> Value {
    let signed = kind == "I";
    let mut steps = Vec::new();
    let reg = |rng: &mut Rng| 1 + rng.below(nr as u64) as usize;
    for i in 0..len {
        let d = reg(rng);
        let (a, b) = (reg(rng), reg(rng));
        let k = if i < 2 { rng.below(22) } else { rng.below(100) };
        let s = if k < 14 {
            let f = *rng.pick(if signed { &["parts", "prim", "negate", "mulsign"][..] } else { &["words", "le", "be", "prim", "dword"][..] });
            json!({"op": "const", "d": d, "f": f, "c": wire_mag(signed && rng.coin(), &rnd_mag(rng, maxw))})
        } else if k < 22 {
            // 2 * WORD_BITS is the input of finding F01: kept rare so that it does not mask the rest of too many histories
            let n = if rng.below(16) == 0 { 2 * Word::BITS as usize } else if rng.below(3) == 0 { rng.below(64 * maxw.min(12) as u64 + 1) as usize } else { *rng.pick(BITS) };
            json!({"op": "ones", "d": d, "n": n})
        } else if k < 50 {
            let op = *rng.pick(&["add", "add", "sub", "sub", "mul", "mul", "div", "rem", "and", "or", "xor"]);
            let f = *rng.pick(&["rr", "vr", "rv", "vv", "ar", "av", "ap"]);
            // an assignment form works on the destination register
            let a = if f.starts_with('a') && rng.below(4) != 0 { d } else { a };
            json!({"op": op, "d": d, "a": a, "b": b, "f": f})
        } else if k < 60 {
            let n = if rng.coin() { *rng.pick(&[1usize, 63, 64, 65, 127, 128, 129]) } else { rng.below(200) as usize };
            json!({"op": if rng.coin() { "shl" } else { "shr" }, "d": d, "a": if rng.coin() { d } else { a }, "n": n, "f": *rng.pick(&["v", "r", "a"])})
        } else if k < 68 {
            if signed {
                json!({"op": *rng.pick(&["neg", "neg", "abs", "signum"]), "d": d, "a": if rng.coin() { d } else { a }, "f": *rng.pick(&["v", "r"])})
            } else {
                let n = if rng.coin() { *rng.pick(BITS) } else { rng.below(64 * maxw.min(12) as u64 + 1) as usize };
                json!({"op": if rng.coin() { "setbit" } else { "clearbit" }, "d": d, "a": if rng.coin() { d } else { a }, "n": n})
            }
        } else if k < 74 {
            json!({"op": "clone", "d": d, "a": a})
        } else if k < 86 {
            json!({"op": "clonefrom", "d": d, "a": a})
        } else if k < 92 {
            json!({"op": *rng.pick(&["rewords", "rebytes", "via"]), "d": d, "a": a, "f": *rng.pick(&["le", "be"])})
        } else if k < 96 {
            json!({"op": "static", "d": d, "n": *rng.pick(SIZES), "b": rng.below(2), "f": if signed && rng.coin() { "neg" } else { "pos" }})
        } else if k < 98 {
            json!({"op": "sqr", "d": d, "a": a})
        } else {
            json!({"op": "drop", "d": d})
        };
        steps.push(s);
    }
    json!({"pool": kind, "nr": nr, "steps": steps})
}
